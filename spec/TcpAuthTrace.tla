---------------------------- MODULE TcpAuthTrace ----------------------------
(***************************************************************************)
(* Code -> spec.  Validates NDJSON traces recorded by harness/cmd/tcpauth  *)
(* (`auth`, `salts`) from the real NewShadowsocksStreamAuthenticator +     *)
(* NewStreamHandler over loopback TCP with real encryption.  Salt byte     *)
(* strings are interned by the driver to tokens 1,2,3.. in order of first  *)
(* appearance (equal bytes <=> equal token), so "new salt" is "next token".*)
(*   {"ev":"New","cache":"nil"|"zero"|"on"}       new server, this key list*)
(*   {"ev":"Hello","c","k","t"}   opener valid under key k (0: under none) *)
(*                                whose first saltSize bytes are token t   *)
(*   {"ev":"Auth","c","name","st"}    what the authenticator returned      *)
(*   {"ev":"Resp","c","t","mark","bytes"}  first saltSize bytes the client  *)
(*                                received; mark = HMAC-SHA1 mark verified *)
(*                                by the harness's own implementation      *)
(*   {"ev":"NoResp","c"}          fault injection: no response stream       *)
(*   {"ev":"Panic","c","where","msg","cls"}  the code under test panicked  *)
(*                                while serving this connection            *)
(*   {"ev":"End","c","closed","probe","bytes","dial","authm","early"}      *)
(*        AddClosed status, AddProbe status ("" = not called), bytes the   *)
(*        client received in all, dial seen, AddAuthenticated argument,    *)
(*        early = the server closed before the client did / the timeout    *)
(*   {"ev":"MassResp","t","cls","mark"}   driver `salts`: response salts   *)
(*                                of many connections (freshness at scale) *)
(* One deterministic pass; viols = the first lines whose OBSERVED values    *)
(* break the property layer, drift = first line that differs from the      *)
(* mechanism layer.                                                        *)
(***************************************************************************)
EXTENDS TcpAuth, Json, TcpAuthKeys

CONSTANTS MaxConn
Trace == ndJsonDeserialize("trace.ndjson")
TraceConns == 1..MaxConn
TraceModes == {"nil", "zero", "on"}

VARIABLES l, viols, drift, dkind, ntraces,
          presented,  \* salt tokens that some earlier Hello of this trace carried
          mass        \* number of distinct response salts of the mass run so far
tvars == <<l, viols, drift, dkind, ntraces, presented, mass>>

Ev == Trace[l]
IsEvent(e) == l <= Len(Trace) /\ Trace[l].ev = e /\ l' = l + 1

\* viols: the first line of every kind (per cipher class where the event names one) of property-layer failure
NoteViolC(k, c) == viols' = IF k # "" /\ ~(\E i \in 1..Len(viols) : viols[i][2] = k /\ viols[i][3] = c)
                          THEN Append(viols, <<l, k, c>>) ELSE viols
NoteViol(k)  == NoteViolC(k, 0)
NoteDrift(k) == /\ drift' = IF drift = 0 /\ k # "" THEN l ELSE drift
                /\ dkind' = IF drift = 0 /\ k # "" THEN k ELSE dkind
NoViol  == UNCHANGED viols
NoDrift == UNCHANGED <<drift, dkind>>

TraceInit == /\ cache = "nil" /\ seen = {} /\ salts = <<>>
             /\ conn = [c \in Conns |-> Idle] /\ tr = <<>>
             /\ l = 1 /\ viols = <<>> /\ drift = 0 /\ dkind = "" /\ ntraces = 0
             /\ presented = {} /\ mass = 0

TrNew == /\ IsEvent("New")
         /\ cache' = Ev.cache /\ seen' = {} /\ salts' = <<>>
         /\ conn' = [c \in Conns |-> Idle]
         /\ presented' = {} /\ mass' = 0
         /\ ntraces' = ntraces + 1
         /\ UNCHANGED tr /\ NoViol /\ NoDrift

\* the slot is reused by a later connection
TrHello ==
  /\ IsEvent("Hello")
  /\ LET c == Ev.c
         k == Ev.k
         t == Ev.t
         new == k # 0 /\ t = Len(salts) + 1 IN
       /\ salts' = IF new THEN Append(salts, [by |-> "client", size |-> SaltSize[Keys[k].cls], sec |-> 0,
                                               marked |-> FALSE])
                   ELSE salts
       /\ conn' = [conn EXCEPT ![c] = [Idle EXCEPT !.ph = "hello", !.k = k, !.t = t]]
       /\ NoteDrift(IF k # 0 /\ ~new /\ ~(t \in 1..Len(salts) /\ salts[t].size = SaltSize[Keys[k].cls])
                    THEN "hello-salt-token" ELSE "")
  /\ UNCHANGED <<cache, seen, tr, ntraces, presented, mass>> /\ NoViol

\* the property layer on the OBSERVED decision
JudgeAuth(k, t, name, st) ==
  LET m == Match(k) IN
    IF st = "OK" /\ m = 0 THEN "invalid-opener-authenticated"
    ELSE IF st = "OK" /\ ~(\E i \in 1..Len(Keys) : Keys[i].name = name /\ Keys[i].cls = Keys[k].cls
                                                  /\ Keys[i].sec = Keys[k].sec)
         THEN "unsound-attribution"
    ELSE IF m # 0 /\ SaltSize[Keys[m].cls] >= 20 /\ ServerIssuedFor(m, t) /\ st = "OK"
         THEN "reflected-handshake-authenticated"
    ELSE IF m # 0 /\ SaltSize[Keys[m].cls] >= 20 /\ ServerIssuedFor(m, t) /\ st # "ERR_REPLAY_SERVER"
         THEN "reflected-handshake-not-classified-as-server-replay"
    ELSE IF m # 0 /\ ~ServerIssuedFor(m, t) /\ t \notin presented /\ st # "OK"
         THEN "valid-fresh-handshake-refused"
    ELSE ""

TrAuth ==
  /\ IsEvent("Auth")
  /\ LET c == Ev.c
         k == conn[c].k
         t == conn[c].t
         m == Match(k)
         exp == AuthOutcome(k, t) IN
       /\ seen' = IF exp = "OK" /\ cache = "on" THEN seen \cup {<<Keys[m].name, t>>} ELSE seen
       /\ conn' = [conn EXCEPT ![c] = [@ EXCEPT !.ph = IF Ev.st = "OK" THEN "authed" ELSE "probe",
                                                !.m = m, !.st = Ev.st]]
       /\ presented' = IF t = 0 THEN presented ELSE presented \cup {t}
       /\ NoteViol(JudgeAuth(k, t, Ev.name, Ev.st))
       /\ NoteDrift(IF conn[c].ph # "hello" THEN "auth-phase"
                    ELSE IF exp # Ev.st THEN "auth-status-differs"
                    ELSE IF exp = "OK" /\ Keys[m].name # Ev.name THEN "auth-other-duplicate" ELSE "")
  /\ UNCHANGED <<cache, salts, tr, ntraces, mass>>

TrResp ==
  /\ IsEvent("Resp")
  /\ LET c == Ev.c
         m == conn[c].m
         new == Ev.t = Len(salts) + 1
         cls == IF m = 0 THEN 4 ELSE Keys[m].cls IN
       /\ salts' = IF new /\ m # 0
                   THEN Append(salts, [by |-> "server", size |-> SaltSize[cls], sec |-> Keys[m].sec,
                                       marked |-> Marking(cls)])
                   ELSE salts
       /\ conn' = [conn EXCEPT ![c] = [@ EXCEPT !.ph = IF conn[c].st = "OK" THEN "served" ELSE @, !.resp = Ev.t,
                                                !.wrote = TRUE]]
       /\ NoteViolC(IF conn[c].st # "OK" \/ m = 0 THEN "bytes-written-to-unauthenticated-client"
                    ELSE IF ~new THEN "response-salt-not-fresh"
                    ELSE IF SaltSize[cls] >= 20 /\ ~Ev.mark THEN "response-salt-not-recognised"
                    ELSE "", cls)
       /\ NoteDrift(IF conn[c].ph # "authed" THEN "resp-phase" ELSE "")
  /\ UNCHANGED <<cache, seen, tr, ntraces, presented, mass>>

TrEnd ==
  /\ IsEvent("End")
  /\ LET c == Ev.c
         refused == conn[c].st # "OK" IN
       /\ conn' = [conn EXCEPT ![c] = [@ EXCEPT !.ph = IF refused THEN "closed" ELSE @, !.dial = Ev.dial]]
       /\ NoteViol(IF refused /\ (Ev.bytes > 0 \/ Ev.dial \/ Ev.authm # 0) THEN "refused-handshake-had-effects"
                   ELSE IF refused /\ Ev.early THEN "refused-handshake-not-drained"
                   ELSE "")
       /\ NoteDrift(IF refused /\ (Ev.probe # conn[c].st \/ Ev.closed # conn[c].st) THEN "metrics-status-differs"
                    ELSE "")
  /\ UNCHANGED <<cache, seen, salts, tr, ntraces, presented, mass>>

TrMass ==
  /\ IsEvent("MassResp")
  /\ mass' = IF Ev.t = mass + 1 THEN mass + 1 ELSE mass
  /\ NoteViolC(IF Ev.t # mass + 1 THEN "response-salt-not-fresh"
               ELSE IF SaltSize[Ev.cls] >= 20 /\ ~Ev.mark THEN "response-salt-not-recognised"
               ELSE "", Ev.cls)
  /\ UNCHANGED <<vars, ntraces, presented>> /\ NoDrift

\* driver `fault`: crypto/rand was failing while this authenticated connection's response was due, and no response
\* stream was produced (the first write returned an error)
TrNoResp ==
  /\ IsEvent("NoResp")
  /\ IF conn[Ev.c].ph = "authed" THEN EntropyFailsCore(Ev.c) /\ NoDrift
     ELSE UNCHANGED <<cache, seen, salts, conn>> /\ NoteDrift("noresp-phase")
  /\ UNCHANGED <<tr, ntraces, presented, mass>> /\ NoViol

\* the code under test panicked while working for this connection (recovered per connection, as service.StreamServe
\* does): the client is dropped.  No behaviour of TcpAuth.tla ends a connection this way - after Hello the authenticator
\* decides, after an acceptance the response starts with a fresh salt (or, under an injected entropy fault, not at all).
TrPanic ==
  /\ IsEvent("Panic")
  /\ conn' = [conn EXCEPT ![Ev.c] = [@ EXCEPT !.ph = "closed"]]
  /\ NoteViolC("handshake-crashed", Ev.cls)
  /\ UNCHANGED <<cache, seen, salts, tr, ntraces, presented, mass>> /\ NoDrift

\* remarks of the driver (e.g. an accepted recording carries no request)
TrNote == IsEvent("Note") /\ UNCHANGED <<vars, viols, drift, dkind, ntraces, presented, mass>>

TraceNext == TrNote \/ TrPanic \/ TrNoResp \/ TrNew \/ TrHello \/ TrAuth \/ TrResp \/ TrEnd \/ TrMass
TraceSpec == TraceInit /\ [][TraceNext]_<<vars, tvars>>

Report == (l = Len(Trace) + 1) =>
            PrintT(<<"RESULT", ToJson([lines |-> l - 1, ntraces |-> ntraces, viols |-> viols, drift |-> drift,
                                       dkind |-> dkind, mass |-> mass])>>)
TraceAccepted == TLCGet("stats").diameter - 1 = Len(Trace)
===============================================================================
