SPECIFICATION Spec
CONSTANTS
  MaxH = 48
  MaxT = 8
  MaxItem = 64
INVARIANTS Report
POSTCONDITION TraceAccepted
CHECK_DEADLOCK FALSE
