SPECIFICATION Spec
CONSTANTS
  MaxH = 8
  MaxT = 8
  MaxItem = 64
INVARIANTS Report
POSTCONDITION TraceAccepted
CHECK_DEADLOCK FALSE
