--------------------------- MODULE ReplayCacheTrace ---------------------------
(***************************************************************************)
(* Code -> spec.  Validates NDJSON traces recorded from the real           *)
(* service.ReplayCache (linearization order given by the verif hook under  *)
(* the cache mutex, or a sequential driver).                               *)
(*   {"ev":"New","cap":n}            a fresh cache (starts a new trace)    *)
(*   {"ev":"Add","h":int,"ret":b}    Add returned b for pre-hash h         *)
(*   {"ev":"Resize","n":n}                                                 *)
(* One deterministic pass evaluates both layers:                           *)
(*   viol  = first line whose OBSERVED result breaks RecentRefused /       *)
(*           FreshAccepted (property layer: verdict)                       *)
(*   drift = first line whose observed result differs from the mechanism   *)
(*           layer's (spec needs updating; not a verdict)                  *)
(* The result is printed when the last line has been consumed.             *)
(***************************************************************************)
EXTENDS ReplayCache, Json

\* NOTE (TLC): a constant substituted with `<-` by an expression that depends on Trace defeats TLC's caching of
\* Trace (the file is re-parsed at every step: quadratic).  The checker therefore renames the pre-hash values of a
\* trace to dense tokens 1..MaxTok (an injective renaming) and passes MaxTok as a plain constant.
CONSTANT MaxTok
Trace == ndJsonDeserialize("trace.ndjson")
TraceHashes == 1..MaxTok
TraceCaps == 0..20000

VARIABLES l, viol, vkind, drift, ntraces
tvars == <<l, viol, vkind, drift, ntraces>>

IsEvent(e) == l <= Len(Trace) /\ Trace[l].ev = e /\ l' = l + 1

TraceInit == /\ Init /\ capacity = 0
             /\ l = 1 /\ viol = 0 /\ vkind = "" /\ drift = 0 /\ ntraces = 0

TrNew == /\ IsEvent("New")
         /\ active' = {} /\ archive' = {} /\ capacity' = Trace[l].cap
         /\ last' = [h \in Hashes |-> -1] /\ mincap' = [h \in Hashes |-> 0] /\ nadd' = 0
         /\ ret' = TRUE /\ obl' = FALSE /\ fresh' = FALSE
         /\ ntraces' = ntraces + 1
         /\ UNCHANGED <<nops, tr, viol, vkind, drift>>

\* the mechanism evolves as the spec says; the observed result is compared with the property layer
\* (obl'/fresh' are functions of the call history alone) and with the mechanism's own result.
TrAdd == /\ IsEvent("Add")
         /\ LET h == Trace[l].h
                o == Trace[l].ret IN
              /\ AddCore(h)
              /\ LET pv == IF obl' /\ o THEN "recent-accepted"
                           ELSE IF fresh' /\ ~o THEN "fresh-refused" ELSE "" IN
                   /\ viol'  = IF viol = 0 /\ pv # "" THEN l ELSE viol
                   /\ vkind' = IF viol = 0 /\ pv # "" THEN pv ELSE vkind
              /\ drift' = IF drift = 0 /\ ret' # o THEN l ELSE drift
         /\ UNCHANGED <<nops, tr, ntraces>>

TrResize == /\ IsEvent("Resize")
            /\ ResizeCore(Trace[l].n)
            /\ UNCHANGED <<nops, tr, viol, vkind, drift, ntraces>>

TraceNext == TrNew \/ TrAdd \/ TrResize
TraceSpec == TraceInit /\ [][TraceNext]_<<vars, tvars>>

Report == (l = Len(Trace) + 1) =>
            PrintT(<<"RESULT", l - 1, ntraces, viol, vkind, drift>>)
\* all lines consumed: one state per line plus the initial state
TraceAccepted == TLCGet("stats").diameter - 1 = Len(Trace)
===============================================================================
