\* focused behaviours for the real-socket driver (failing sends, DNS query + other host): T = 1 unit (300 ms), the only clock step is a long idle period
SPECIFICATION GenSpec
CONSTANTS
  Clients = {1, 2, 3}
  IPOf <- GenIPOf
  Keys = {1}
  InitList <- GenInitList
  SaltSz <- GenSaltSz
  Senders = {1, 2, 3, 4, 5, 6, 7, 8, 10, 14}
  Targets = {1, 2, 3, 4, 5, 10, 14}
  DnsPort = {2, 5, 8}
  Allowed = {1, 2, 4, 5, 10, 14}
  Unsendable = {14}
  DisarmFirst = TRUE
  Fam <- GenFam
  DgAlpha <- GenDgFocus
  RpAlpha <- GenRpFocus
  MidAlpha <- NoMid
  Sync = TRUE
  T = 1
  DNST = 57
  Ticks = {2}
  MaxNow = 4
  MaxDg = 8
  MaxRp = 5
  MaxAssoc = 6
  Slack = 0
  Bound = 0
  ZonedPanics = FALSE
  GenLen = 10
INVARIANTS DumpInv
CHECK_DEADLOCK FALSE
