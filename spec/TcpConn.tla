-------------------------------- MODULE TcpConn --------------------------------
(***************************************************************************)
(* service/tcp.go  StreamServe / Handle / handleConnection / absorbProbe / *)
(* proxyConnection  and  service/metrics/metrics.go measuredConn.          *)
(*                                                                         *)
(* Mechanism layer: one action per step of the Go code (table in DESIGN.md *)
(* 9b).  Per connection c there are two goroutines: the handler (st[c].pc) *)
(* and, during the relay, the client->target copier (st[c].pa).            *)
(* Authentication is ONE abstract step (Auth) whose outcome is a parameter *)
(* of the scenario (st[c].hs); CipherList/TcpAuth model it in detail.      *)
(*                                                                         *)
(* Byte streams are sequences of tokens.  Client wire tokens [k, v]:       *)
(*   pre(v)      v half-units of the 50 key-search bytes (2 are needed)    *)
(*   addr        rest of the first chunk: the target address alone         *)
(*   addrplus(d) address coalesced with data d in ONE chunk                *)
(*   addrpart / addrrest   address split over two chunks                   *)
(*   badaddr     chunk that authenticates but has no parseable address,    *)
(*               or whose tag is corrupt                                   *)
(*   data(d)     valid chunk with payload id d (ids are 1,2,3.. in order)  *)
(*   bad         chunk whose length block or tag does not authenticate     *)
(*   junk        bytes that are not a chunk of this stream                 *)
(* Target tokens are payload ids 1,2,3...  Observer logs (tlog, clog) hold *)
(* payload ids, 0 for FIN and -1 for RST.                                  *)
(*                                                                         *)
(* Time: integer clock `now`; Tick is enabled only when every goroutine is *)
(* blocked in I/O (handler steps take no time at this granularity), so a   *)
(* read blocked at its deadline returns AT the deadline.                   *)
(*                                                                         *)
(* Configurations (one per property family):                               *)
(*   MC_TcpConn_C02 / C02Thorough   relay, <=3 / <=6 chunks each way        *)
(*   MC_TcpConn_C02Live, C02Indep   liveness; half-close independence      *)
(*   MC_TcpConn_C06 / C06Thorough   probes with clock, invalid streams     *)
(*   MC_TcpConn_C06Inner            tcp.go:305-308 as it was written:      *)
(*                                  NEGATIVE control, TLC must refute it   *)
(*   MC_TcpConn_C06Live             every handler path terminates          *)
(*   MC_TcpConn_C15 / C15Thorough   every outcome class                    *)
(*   MC_TcpConn_C18(Quick), C18One, C18Live1, C18Live  2 conns, listener   *)
(*                                  shutdown, isolation, termination       *)
(*   Gen_TcpConn_*                  behaviour generation (TcpConnGen.tla)  *)
(*   TcpConnTrace / TcpConnTraceM   records of the real code: property     *)
(*                                  layer (verdict) / mechanism (drift)    *)
(*                                                                         *)
(* Property layer (C02, C06, C15, C18): predicates over the scenario (what *)
(* the peers sent: hs, tk, csent, tsent, cfin...) and the observations     *)
(* ob[c] (what client, target, dialer and metrics saw) only.               *)
(***************************************************************************)
EXTENDS Integers, Sequences, FiniteSets, TLC

CONSTANTS Conns,       \* connection ids
          HsKinds,     \* openers: subset of {"valid","garbage","replayC","replayS"}
          TgtKinds,    \* target: subset of {"ok","refuse","deny"}  (deny = dialer refuses the address)
          MaxC, MaxT,  \* data chunks client -> target / target -> client
          MaxTok,      \* tokens a client may put on the wire
          AllowBad,    \* corrupt chunks / bad address in an authenticated stream
          AllowSplit,  \* address split over two chunks
          AllowRst,    \* target may reset the connection
          AllowTClose, \* target may close completely after its half-close (further writes to it vanish, then fail)
          AllowCRst,   \* client may reset the connection during the relay
          AllowPause,  \* a receiver (target / client) may stop reading for any length of time (back-pressure)
          Planned,     \* TRUE (behaviour generation): each peer decides at the start how much it will send before it
                       \* half-closes, so that random walks do not end nearly every stream at its first step
          Timeout,     \* handshake read timeout (ticks)
          MaxNow,      \* clock bound (0: time never advances)
          DrainMode,   \* "inner": tcp.go:307 as written (drain through the decrypting reader); "raw": drain the raw conn
          Strict,      \* TRUE: a client does not send at the very instant its deadline is due (behaviour generation)
          WithServe,   \* TRUE: the listener may be closed while handlers run
          Hist,        \* TRUE: keep the action history tr (behaviour generation); FALSE in exhaustive runs
          SlackEarly, SlackLate,  \* tolerance of time comparisons (0 in the model and under virtual time):
                                  \* clock granularity / how late a close may be observed
          SlackSched              \* how long before a deadline bytes must be sent to be surely read before it

VARIABLES st,    \* [Conns -> mechanism state of one connection incl. the two wires]
          ob,    \* [Conns -> scenario ghosts + what the observers saw]
          now, lst, srv,
          tr     \* history of actions (behaviour generation; hidden by VIEW)

vars == <<st, ob, now, lst, srv, tr>>

Tok(k, v) == [k |-> k, v |-> v]
Stat(cp, pt, tp, pc) == [cp |-> cp, pt |-> pt, tp |-> tp, pc |-> pc]
MRec(m, s, n) == [m |-> m, s |-> s, n |-> n]      \* metrics call: name, status, numbers

IsPrefix(a, b) == Len(a) <= Len(b) /\ \A i \in 1..Len(a) : a[i] = b[i]
Ids(n) == [i \in 1..n |-> i]
DataOf(log) == SelectSeq(log, LAMBDA x : x > 0)
Has(log, x) == \E i \in 1..Len(log) : log[i] = x
Min(a, b) == IF a < b THEN a ELSE b
Max(a, b) == IF a > b THEN a ELSE b
\* numbering of the token kinds in the history (CSend event value = code*10 + v); harness/cmd/tcpconn/plan.go
KindCode(k) == CASE k = "pre" -> 1 [] k = "addr" -> 2 [] k = "addrplus" -> 3 [] k = "addrpart" -> 4 [] k = "addrrest" -> 5
                 [] k = "badaddr" -> 6 [] k = "data" -> 7 [] k = "bad" -> 8 [] k = "junk" -> 9
W(tok) == IF tok.k = "pre" THEN tok.v ELSE 1       \* wire weight of a client token
RECURSIVE SumW(_)
SumW(s) == IF s = <<>> THEN 0 ELSE W(Head(s)) + SumW(Tail(s))

InitConn(h, k, wc, wt) ==
  [ hs |-> h, tk |-> k, wc |-> wc, wt |-> wt,   \* wc, wt: planned number of client tokens / target chunks (-1: free)
    pc |-> "idle", pa |-> "none",
    got |-> 0, buf50 |-> FALSE, left |-> <<>>, dl |-> 0, status |-> "", addrOK |-> FALSE,
    cerr |-> "", terr |-> FALSE,
    cq |-> <<>>, cfin |-> FALSE, crd |-> FALSE, csock |-> "none",
    tq |-> <<>>, tfin |-> FALSE, trst |-> FALSE, tgt |-> "none", trd |-> FALSE,
    tcl |-> "no",   \* "closed": the target closed completely (the next write to it vanishes), "broken": writes now fail
    crst |-> FALSE, \* the client reset the connection
    tpz |-> 0, cpz |-> 0,   \* > 0: the target / the client stopped reading at time (value - 1), writes to it block; -1: it did once

    finT |-> FALSE, finC |-> FALSE,
    cnt |-> Stat(0, 0, 0, 0) ]

InitOb ==
  [ csent |-> <<>>, tsent |-> 0, tlog |-> <<>>, clog |-> <<>>, mlog |-> <<>>, dials |-> 0,
    acceptAt |-> -1, closeAt |-> -1, cfinAt |-> -1, preDoneAt |-> -1, addrDoneAt |-> -1, lastSendAt |-> -1,
    cancelled |-> FALSE,      \* the listener was closed before this connection's dial was seen (its context is cancelled)
    handlerDone |-> FALSE,    \* the handler goroutine of an accepted connection has returned
    stalls |-> {},            \* (records of the real code only) observations the harness waited for in vain
    tfinPolite |-> FALSE,     \* the target sent its FIN only after it had seen the proxy's FIN
    drain |-> "",             \* how the probe drain ended
    timeout |-> Timeout,
    afterClose |-> 0,         \* data chunks the client sent after the target had closed completely
    wire |-> [cs |-> 0, tr |-> 0, ts |-> 0, cr |-> 0, cpl |-> 0, pt |-> 0, pc |-> 0] ]
    \* cpl: client payload (plaintext) sent; pt, pc: bytes the proxy's write system calls really handed to the target / client socket

WantC == IF Planned THEN 0..MaxTok ELSE {-1}
WantT == IF Planned THEN 0..MaxT ELSE {-1}
Init == /\ st \in [Conns -> {InitConn(h, k, wc, wt) : h \in HsKinds, k \in TgtKinds, wc \in WantC, wt \in WantT}]
        /\ ob = [c \in Conns |-> InitOb]
        /\ now = 0 /\ lst = "open" /\ srv = "accept"
        /\ tr = <<>>

Ev(a, c, v) == [a |-> a, c |-> c, v |-> v, t |-> now]
Log(e) == IF Hist THEN Append(tr, e) ELSE tr

\* one step of connection c: new mechanism record s, new observation record o, history event
Step(c, s, o, a, v) == /\ st' = [st EXCEPT ![c] = s]
                       /\ ob' = [ob EXCEPT ![c] = o]
                       /\ tr' = Log(Ev(a, c, v))
                       /\ UNCHANGED <<now, lst, srv>>

Due(c) == st[c].dl # 0 /\ now >= st[c].dl

(* ------------------------------------------------------------------------ *)
(* Environment: clients, targets, the listener's owner, the clock           *)
(* ------------------------------------------------------------------------ *)
Units(c) == SumW(SelectSeq(ob[c].csent, LAMBDA x : x.k = "pre"))
Body(c)  == SelectSeq(ob[c].csent, LAMBDA x : x.k # "pre")
NData(c) == Len(SelectSeq(ob[c].csent, LAMBDA x : x.k \in {"data", "addrplus"}))
HasBad(c) == \E i \in 1..Len(ob[c].csent) : ob[c].csent[i].k \in {"bad", "badaddr"}
AddrDone(c) == \E i \in 1..Len(ob[c].csent) : ob[c].csent[i].k \in {"addr", "addrplus", "addrrest"}

\* well-formed continuations of the client's byte stream
NextToks(c) ==
  LET b == Body(c) IN
  IF Units(c) < 2 THEN {Tok("pre", n) : n \in 1..(2 - Units(c))}
  ELSE IF st[c].hs # "valid" THEN {Tok("junk", 0)}
  ELSE IF HasBad(c) THEN {Tok("junk", 0)}
  ELSE IF b = <<>> THEN {Tok("addr", 0), Tok("addrplus", 1)}
                        \cup (IF AllowBad THEN {Tok("badaddr", 0)} ELSE {})
                        \cup (IF AllowSplit THEN {Tok("addrpart", 0)} ELSE {})
  ELSE IF b[Len(b)].k = "addrpart" THEN {Tok("addrrest", 0)}
  ELSE (IF NData(c) < MaxC THEN {Tok("data", NData(c) + 1)} ELSE {})
       \cup (IF AllowBad THEN {Tok("bad", 0)} ELSE {})

EnvOK(c) == ~Strict \/ ~Due(c)

Connect(c) == /\ st[c].pc = "idle" /\ lst = "open"
              /\ Step(c, [st[c] EXCEPT !.pc = "backlog", !.csock = "open"], ob[c], "Connect", 0)

ClientSend(c, tok) ==
  /\ st[c].pc \notin {"idle", "reset"} /\ ~st[c].cfin /\ ~st[c].crst
  /\ EnvOK(c)
  /\ Len(ob[c].csent) < MaxTok /\ tok \in NextToks(c)
  /\ st[c].wc = -1 \/ Len(ob[c].csent) < st[c].wc
  /\ LET o == ob[c] IN
     \* a client may still write after the proxy has closed its side: those bytes go nowhere
     Step(c, IF st[c].csock = "open" THEN [st[c] EXCEPT !.cq = Append(@, tok)] ELSE st[c],
          [o EXCEPT !.csent = Append(@, tok),
                    !.wire.cs = @ + W(tok),
                    !.wire.cpl = @ + (IF tok.k \in {"data", "addrplus"} THEN 1 ELSE 0),
                    !.afterClose = @ + (IF tok.k = "data" /\ st[c].tcl # "no" THEN 1 ELSE 0),
                    !.lastSendAt = now,
                    !.preDoneAt = IF @ = -1 /\ tok.k = "pre" /\ Units(c) + tok.v = 2 THEN now ELSE @,
                    !.addrDoneAt = IF @ = -1 /\ tok.k \in {"addr", "addrplus", "addrrest"} THEN now ELSE @],
          "CSend", KindCode(tok.k) * 10 + tok.v)

ClientFin(c) ==
  /\ st[c].pc \notin {"idle", "reset"} /\ ~st[c].cfin /\ ~st[c].crst
  /\ EnvOK(c)
  /\ st[c].wc = -1 \/ Len(ob[c].csent) >= st[c].wc \/ Len(ob[c].csent) >= MaxTok \/ NextToks(c) = {}
  /\ Step(c, [st[c] EXCEPT !.cfin = TRUE], [ob[c] EXCEPT !.cfinAt = now], "CFin", 0)

TargetSend(c) ==
  /\ st[c].tgt = "up" /\ ~st[c].tfin /\ ~st[c].trst /\ ob[c].tsent < MaxT
  /\ st[c].wt = -1 \/ ob[c].tsent < st[c].wt
  /\ Step(c, [st[c] EXCEPT !.tq = Append(@, ob[c].tsent + 1)],
          [ob[c] EXCEPT !.tsent = @ + 1, !.wire.ts = @ + 1], "TSend", ob[c].tsent + 1)

TargetFin(c) ==
  /\ st[c].tgt = "up" /\ ~st[c].tfin /\ ~st[c].trst
  /\ st[c].wt = -1 \/ ob[c].tsent >= st[c].wt \/ ob[c].tsent >= MaxT
  /\ Step(c, [st[c] EXCEPT !.tfin = TRUE], [ob[c] EXCEPT !.tfinPolite = Has(ob[c].tlog, 0)], "TFin", 0)

TargetRst(c) ==
  /\ AllowRst /\ st[c].tgt = "up" /\ ~st[c].trst /\ ~st[c].tfin
  /\ Step(c, [st[c] EXCEPT !.trst = TRUE, !.tq = <<>>], ob[c], "TRst", 0)

\* the target, having half-closed, closes completely: what the proxy still writes to it is lost, then refused
\* Back-pressure: a receiver stops reading; once its buffers are full the proxy's write to it BLOCKS.  There is no timeout
\* transition on a relay write: however long the receiver stays away, nothing happens to the stream (tcp.go:304, :316 are
\* plain io.Copy), and when it comes back the copy goes on where it was.
TargetPause(c)  == /\ AllowPause /\ st[c].tgt = "up" /\ st[c].tpz = 0 /\ ~st[c].trst /\ st[c].tcl = "no"
                   /\ Step(c, [st[c] EXCEPT !.tpz = now + 1], ob[c], "TPause", 0)
TargetResume(c) == /\ st[c].tpz > 0 /\ Step(c, [st[c] EXCEPT !.tpz = -1], ob[c], "TResume", 0)   \* -1: has paused once
ClientPause(c)  == /\ AllowPause /\ st[c].tgt = "up" /\ st[c].cpz = 0 /\ ~st[c].crst /\ st[c].csock = "open"
                   /\ Step(c, [st[c] EXCEPT !.cpz = now + 1], ob[c], "CPause", 0)
ClientResume(c) == /\ st[c].cpz > 0 /\ Step(c, [st[c] EXCEPT !.cpz = -1], ob[c], "CResume", 0)

TargetClose(c) ==
  /\ AllowTClose /\ st[c].tgt \in {"up", "closed"} /\ st[c].tfin /\ ~st[c].trst /\ st[c].tcl = "no"
  /\ Step(c, [st[c] EXCEPT !.tcl = "closed"], ob[c], "TClose", 0)
\* the client aborts the connection during the relay (before having half-closed)
ClientRst(c) ==
  /\ AllowCRst /\ st[c].tgt = "up" /\ st[c].csock = "open" /\ ~st[c].cfin /\ ~st[c].crst
  /\ Step(c, [st[c] EXCEPT !.crst = TRUE, !.cq = <<>>], ob[c], "CRst", 0)

CloseListener ==
  /\ WithServe /\ lst = "open"
  /\ lst' = "closed"
  \* connections still in the kernel backlog are reset by the kernel, no handler ever sees them
  /\ st' = [c \in Conns |-> IF st[c].pc = "backlog" THEN [st[c] EXCEPT !.pc = "reset", !.csock = "closed"] ELSE st[c]]
  /\ ob' = [c \in Conns |-> IF ob[c].dials = 0 THEN [ob[c] EXCEPT !.cancelled = TRUE] ELSE ob[c]]
  /\ tr' = Log(Ev("CloseListener", 0, 0))
  /\ UNCHANGED <<now, srv>>

(* ------------------------------------------------------------------------ *)
(* StreamServe  tcp.go:231-258                                              *)
(* ------------------------------------------------------------------------ *)
Running == {c \in Conns : st[c].pc \notin {"idle", "backlog", "reset", "done"}}

\* :237 accept, :246-256 running.Add(1); go handle(...)
Accept(c) == /\ srv = "accept" /\ lst = "open" /\ st[c].pc = "backlog"
             /\ Step(c, [st[c] EXCEPT !.pc = "start"], ob[c], "Accept", 0)
\* :238-240 accept returned ErrClosed
ServeBreak == /\ srv = "accept" /\ lst = "closed" /\ srv' = "cancel"
              /\ tr' = Log(Ev("ServeBreak", 0, 0)) /\ UNCHANGED <<st, ob, now, lst>>
\* :235 deferred contextCancel() runs BEFORE the wait (handlers are told, not killed)
ServeCancel == /\ srv = "cancel" /\ srv' = "wait"
               /\ tr' = Log(Ev("ServeCancel", 0, 0)) /\ UNCHANGED <<st, ob, now, lst>>
\* :233 deferred running.Wait()
ServeReturn == /\ srv = "wait" /\ Running = {} /\ srv' = "ret"
               /\ tr' = Log(Ev("ServeReturn", 0, 0)) /\ UNCHANGED <<st, ob, now, lst>>

(* ------------------------------------------------------------------------ *)
(* Handle / handleConnection: pre-authentication                            *)
(* ------------------------------------------------------------------------ *)
Fail(s, status, next) == [s EXCEPT !.status = status, !.pc = next]

\* :260-266 MeasureConn, connStart; :333-340 SetReadDeadline(now + timeout).  (AddOpenTCPConnection: shadowsocks.go:141)
Start(c) == /\ st[c].pc = "start"
            /\ Step(c, [st[c] EXCEPT !.pc = "read50", !.dl = now + Timeout],
                    [ob[c] EXCEPT !.acceptAt = now, !.mlog = Append(@, MRec("Open", "", <<>>))], "Open", 0)

\* :78-81 io.ReadFull(clientReader, firstBytes): one Read that returned data
Read50Take(c) ==
  /\ st[c].pc = "read50" /\ ~Due(c) /\ st[c].cq # <<>>
  /\ LET t == Head(st[c].cq)
         g == st[c].got + W(t) IN
     Step(c, [st[c] EXCEPT !.cq = Tail(@), !.got = g, !.cnt.cp = @ + W(t), !.pc = IF g >= 2 THEN "auth" ELSE "read50"],
          ob[c], "Read50", g)
\* EOF or deadline before 50 bytes: "reading header failed" -> ERR_CIPHER (:130-133)
Read50Fail(c) ==
  /\ st[c].pc = "read50" /\ (Due(c) \/ (st[c].cq = <<>> /\ st[c].cfin))
  /\ Step(c, Fail(st[c], "ERR_CIPHER", "absorb"), ob[c], "Read50Fail", 0)

\* :84-89 findEntry, :140-150 server-salt and replay checks: abstract outcome of the opener
Auth(c) ==
  /\ st[c].pc = "auth"
  /\ LET h == st[c].hs IN
     Step(c, IF h = "valid" THEN [st[c] EXCEPT !.pc = "authd", !.buf50 = TRUE]
             ELSE Fail(st[c], CASE h = "garbage" -> "ERR_CIPHER"
                                [] h = "replayC" -> "ERR_REPLAY_CLIENT"
                                [] h = "replayS" -> "ERR_REPLAY_SERVER", "absorb"),
          ob[c], "Auth", 0)

\* :348
AddAuthenticated(c) ==
  /\ st[c].pc = "authd"
  /\ Step(c, [st[c] EXCEPT !.pc = "readaddr"], [ob[c] EXCEPT !.mlog = Append(@, MRec("Auth", "", <<>>))], "MAuth", 0)

\* :375 io.Copy(io.Discard, clientConn): one Read that returned data
AbsorbTake(c) ==
  /\ st[c].pc = "absorb" /\ ~Due(c) /\ st[c].cq # <<>>
  /\ LET t == Head(st[c].cq) IN
     Step(c, [st[c] EXCEPT !.cq = Tail(@), !.cnt.cp = @ + W(t)], ob[c], "Absorb", 0)
\* the drain ends: EOF or read deadline
AbsorbEnd(c) ==
  /\ st[c].pc = "absorb" /\ (Due(c) \/ (st[c].cq = <<>> /\ st[c].cfin))
  /\ Step(c, [st[c] EXCEPT !.pc = "probe"], [ob[c] EXCEPT !.drain = IF Due(c) THEN "timeout" ELSE "eof"], "AbsorbEnd", 0)
\* :378
AddProbe(c) ==
  /\ st[c].pc = "probe"
  /\ Step(c, [st[c] EXCEPT !.pc = "closing"],
          [ob[c] EXCEPT !.mlog = Append(@, MRec("Probe", st[c].status, <<st[c].cnt.cp>>))], "MProbe", 0)

(* ------------------------------------------------------------------------ *)
(* post-authentication: address, dial                                       *)
(* ------------------------------------------------------------------------ *)
\* :351 socks.ReadAddr(innerConn): the decrypting reader first gets the 50 key-search bytes back (MultiReader :94)
ReadAddrTake(c) ==
  /\ st[c].pc = "readaddr" /\ ~Due(c) /\ st[c].cq # <<>>
  /\ LET t == Head(st[c].cq)
         s == [st[c] EXCEPT !.cq = Tail(@), !.cnt.cp = @ + 1, !.buf50 = FALSE] IN
     Step(c, CASE t.k = "addr"     -> [s EXCEPT !.addrOK = TRUE, !.pc = "cleardl"]
               [] t.k = "addrplus" -> [s EXCEPT !.addrOK = TRUE, !.pc = "cleardl", !.left = <<t.v>>]
               [] t.k = "addrpart" -> s
               [] t.k = "addrrest" -> [s EXCEPT !.addrOK = TRUE, !.pc = "cleardl"]
               [] OTHER            -> [s EXCEPT !.addrOK = FALSE, !.pc = "cleardl"],
          ob[c], "ReadAddr", 0)
ReadAddrFail(c) ==
  /\ st[c].pc = "readaddr" /\ (Due(c) \/ (st[c].cq = <<>> /\ st[c].cfin))
  /\ Step(c, [st[c] EXCEPT !.addrOK = FALSE, !.pc = "cleardl", !.buf50 = FALSE], ob[c], "ReadAddrFail", 0)
\* :353 outerConn.SetReadDeadline(time.Time{})
ClearDeadline(c) ==
  /\ st[c].pc = "cleardl"
  /\ Step(c, [st[c] EXCEPT !.dl = 0, !.pc = IF st[c].addrOK THEN "dial" ELSE "drainraw"], ob[c], "ClearDeadline", 0)
\* :356 io.Copy(io.Discard, outerConn) on the RAW connection, no deadline
DrainRawTake(c) ==
  /\ st[c].pc = "drainraw" /\ st[c].cq # <<>>
  /\ Step(c, [st[c] EXCEPT !.cq = Tail(@), !.cnt.cp = @ + W(Head(st[c].cq))], ob[c], "DrainRaw", 0)
DrainRawEof(c) ==
  /\ st[c].pc = "drainraw" /\ st[c].cq = <<>> /\ st[c].cfin
  /\ Step(c, Fail(st[c], "ERR_READ_ADDRESS", "closing"), ob[c], "DrainRawEof", 0)

\* :294-298 / :360-367 dial.  A failed dial is NOT drained: the connection is closed at once.
Dial(c) ==
  /\ st[c].pc = "dial"
  /\ LET o == [ob[c] EXCEPT !.dials = @ + 1] IN
     \* :235 StreamServe cancels the handlers' context when the listener is closed: a dial after that fails
     CASE srv \in {"wait", "ret"} /\ st[c].tk # "deny" -> Step(c, Fail(st[c], "ERR_CONNECT", "closing"), o, "Dial", 0)
       [] st[c].tk = "ok"     -> Step(c, [st[c] EXCEPT !.tgt = "up", !.pa = "copy", !.pc = "t2c"], o, "Dial", 1)
       [] st[c].tk = "refuse" -> Step(c, Fail(st[c], "ERR_CONNECT", "closing"), o, "Dial", 0)
       [] st[c].tk = "deny"   -> Step(c, Fail(st[c], "ERR_ADDRESS", "closing"), ob[c], "DialDenied", 0)

(* ------------------------------------------------------------------------ *)
(* relay, goroutine client -> target  tcp.go:303-315                        *)
(* ------------------------------------------------------------------------ *)
ToTarget(c, s, o, d, a) ==   \* tgtConn.Write of one decrypted chunk
  IF s.trst \/ s.tcl = "broken" THEN Step(c, [s EXCEPT !.cerr = "write", !.pa = "drain"], o, "C2T_WriteErr", d)
  ELSE IF s.tcl = "closed" THEN Step(c, [s EXCEPT !.cnt.pt = @ + 1, !.tcl = "broken"], [o EXCEPT !.wire.pt = @ + 1], "C2T_Vanish", d)   \* accepted by the kernel, answered by RST
  ELSE Step(c, [s EXCEPT !.cnt.pt = @ + 1], [o EXCEPT !.tlog = Append(@, d), !.wire.tr = @ + 1, !.wire.pt = @ + 1], a, d)

\* io.Copy(tgtConn, clientConn): one chunk.  Data coalesced with the address is still in the reader (leftover)
C2T_Left(c) ==
  /\ st[c].pa = "copy" /\ st[c].left # <<>> /\ (st[c].tpz <= 0 \/ st[c].trst)
  /\ ToTarget(c, [st[c] EXCEPT !.left = <<>>], ob[c], Head(st[c].left), "TRecv")
C2T_Copy(c) ==
  /\ st[c].pa = "copy" /\ st[c].left = <<>> /\ st[c].cq # <<>> /\ ~st[c].crst
  /\ st[c].tpz <= 0 \/ st[c].trst \/ Head(st[c].cq).k # "data"       \* the write of a data chunk to a target that is not reading blocks
  /\ LET t == Head(st[c].cq)
         s == [st[c] EXCEPT !.cq = Tail(@), !.cnt.cp = @ + 1] IN
     IF t.k = "data" THEN ToTarget(c, s, ob[c], t.v, "TRecv")
     ELSE Step(c, [s EXCEPT !.cerr = "cipher", !.pa = "drain"], ob[c], "C2T_Err", 0)
C2T_Eof(c) ==
  /\ st[c].pa = "copy" /\ st[c].left = <<>> /\ st[c].cq = <<>> /\ st[c].cfin /\ ~st[c].crst
  /\ Step(c, [st[c] EXCEPT !.pa = "closerd"], ob[c], "C2T_Eof", 0)
\* the client reset the connection: the read fails (ECONNRESET)
C2T_ReadErr(c) ==
  /\ st[c].pa = "copy" /\ st[c].left = <<>> /\ st[c].crst
  /\ IF st[c].terr /\ ~st[c].trst
     \* the pending socket error was already reported to the target->client write: this read sees end of stream
     THEN Step(c, [st[c] EXCEPT !.pa = "closerd"], ob[c], "C2T_EofAfterReset", 0)
     ELSE Step(c, [st[c] EXCEPT !.cerr = "read", !.pa = "drain"], ob[c], "C2T_ReadErr", 0)
\* :305-308 "Drain to prevent a close in the case of a cipher error": io.Copy(io.Discard, clientConn) where clientConn
\* is the DECRYPTING connection.  After a cipher error the next 2+tag bytes fail again at once.
DrainTake(c) ==
  /\ st[c].pa = "drain" /\ st[c].cq # <<>>
  /\ LET t == Head(st[c].cq)
         s == [st[c] EXCEPT !.cq = Tail(@), !.cnt.cp = @ + 1]
         goes == DrainMode = "raw" \/ (st[c].cerr = "write" /\ t.k = "data") IN
     Step(c, IF goes THEN s ELSE [s EXCEPT !.pa = "closerd"], ob[c], "Drain", 0)
DrainEof(c) ==
  /\ st[c].pa = "drain" /\ st[c].cq = <<>> /\ (st[c].cfin \/ st[c].crst)
  /\ Step(c, [st[c] EXCEPT !.pa = "closerd"], ob[c], "DrainEof", 0)
\* :309
CloseReadClient(c) ==
  /\ st[c].pa = "closerd"
  /\ Step(c, [st[c] EXCEPT !.crd = TRUE, !.pa = "fintarget"], ob[c], "CloseReadClient", 0)
\* :313 tgtConn.CloseWrite()
FinToTarget(c) ==
  /\ st[c].pa = "fintarget"
  /\ Step(c, [st[c] EXCEPT !.finT = TRUE, !.pa = "send"],
          IF st[c].trst \/ st[c].tcl # "no" THEN ob[c] ELSE [ob[c] EXCEPT !.tlog = Append(@, 0)], "TSawFin", 0)

(* ------------------------------------------------------------------------ *)
(* relay, handler goroutine target -> client  tcp.go:316-328                *)
(* ------------------------------------------------------------------------ *)
T2C_Copy(c) ==
  /\ st[c].pc = "t2c" /\ ~st[c].trst /\ st[c].tq # <<>> /\ ~st[c].crst /\ st[c].cpz <= 0
  /\ LET d == Head(st[c].tq) IN
     Step(c, [st[c] EXCEPT !.tq = Tail(@), !.cnt.tp = @ + 1, !.cnt.pc = @ + 1],
          [ob[c] EXCEPT !.clog = Append(@, d), !.wire.cr = @ + 1, !.wire.pc = @ + 1], "CRecv", d)
T2C_Eof(c) ==
  /\ st[c].pc = "t2c" /\ ~st[c].trst /\ st[c].tq = <<>> /\ st[c].tfin
  /\ Step(c, [st[c] EXCEPT !.pc = "finclient"], ob[c], "T2C_Eof", 0)
T2C_Err(c) ==
  /\ st[c].pc = "t2c" /\ st[c].trst
  /\ Step(c, [st[c] EXCEPT !.terr = TRUE, !.pc = "finclient"], ob[c], "T2C_Err", 0)
\* the client is gone: the write to it fails
T2C_WriteErr(c) ==
  /\ st[c].pc = "t2c" /\ ~st[c].trst /\ st[c].tq # <<>> /\ st[c].crst
  /\ Step(c, [st[c] EXCEPT !.terr = TRUE, !.pc = "finclient"], ob[c], "T2C_WriteErr", 0)
\* :318 clientConn.CloseWrite()
FinToClient(c) ==
  /\ st[c].pc = "finclient"
  /\ Step(c, [st[c] EXCEPT !.finC = TRUE, !.pc = "closerdT"],
          IF st[c].crst THEN ob[c] ELSE [ob[c] EXCEPT !.clog = Append(@, 0)], "CSawFin", 0)
\* :319
CloseReadTarget(c) ==
  /\ st[c].pc = "closerdT"
  /\ Step(c, [st[c] EXCEPT !.trd = TRUE, !.pc = "wait"], ob[c], "CloseReadTarget", 0)
\* :314 / :321 rendezvous on fromClientErrCh, :322-328 status, :299 deferred tgtConn.Close()
Join(c) ==
  /\ st[c].pc = "wait" /\ st[c].pa = "send"
  /\ Step(c, [st[c] EXCEPT !.pa = "done", !.tgt = "closed", !.pc = "closing",
                           !.status = IF st[c].cerr # "" THEN "ERR_RELAY_CLIENT"
                                      ELSE IF st[c].terr THEN "ERR_RELAY_TARGET" ELSE ""],
          ob[c], "Join", 0)

(* ------------------------------------------------------------------------ *)
(* Handle: report and close  tcp.go:270-278, StreamServe :248-249           *)
(* ------------------------------------------------------------------------ *)
AddClosed(c) ==
  /\ st[c].pc = "closing"
  /\ LET k == st[c].cnt IN
     Step(c, [st[c] EXCEPT !.pc = "close"],
          [ob[c] EXCEPT !.mlog = Append(@, MRec("Closed", IF st[c].status = "" THEN "OK" ELSE st[c].status,
                                                <<k.cp, k.pt, k.tp, k.pc>>))], "MClosed", 0)
\* :277 measuredClientConn.Close(): unread input makes the kernel answer RST instead of FIN
Close(c) ==
  /\ st[c].pc = "close"
  /\ LET kind == IF st[c].cq # <<>> THEN -1 ELSE 0 IN
     Step(c, [st[c] EXCEPT !.pc = "exit", !.csock = "closed", !.cq = <<>>],
          [ob[c] EXCEPT !.closeAt = now,
                        !.clog = IF (kind = 0 /\ st[c].finC) \/ st[c].crst THEN @ ELSE Append(@, kind)], "CClose", kind)
\* :248-249 deferred clientConn.Close(), running.Done()
HandlerDone(c) ==
  /\ st[c].pc = "exit"
  /\ Step(c, [st[c] EXCEPT !.pc = "done"], [ob[c] EXCEPT !.handlerDone = TRUE], "HandlerDone", 0)

(* ------------------------------------------------------------------------ *)
(* clock                                                                    *)
(* ------------------------------------------------------------------------ *)
MainBlocked(c) ==
  LET s == st[c] IN
  CASE s.pc \in {"idle", "reset", "done"} -> TRUE
    [] s.pc = "backlog" -> ~(srv = "accept" /\ lst = "open")
    [] s.pc \in {"read50", "absorb", "readaddr"} -> ~Due(c) /\ s.cq = <<>> /\ ~s.cfin
    [] s.pc = "drainraw" -> s.cq = <<>> /\ ~s.cfin
    [] s.pc = "t2c" -> ~s.trst /\ ((s.tq = <<>> /\ ~s.tfin) \/ (s.tq # <<>> /\ s.cpz > 0 /\ ~s.crst))
    [] s.pc = "wait" -> s.pa # "send"
    [] OTHER -> FALSE
AuxBlocked(c) ==
  LET s == st[c] IN
  CASE s.pa \in {"none", "done", "send"} -> TRUE
    [] s.pa = "copy" -> \/ (s.left = <<>> /\ s.cq = <<>> /\ ~s.cfin /\ ~s.crst)
                        \/ (s.tpz > 0 /\ ~s.trst /\ (s.left # <<>> \/ (s.cq # <<>> /\ Head(s.cq).k = "data" /\ ~s.crst)))
    [] s.pa = "drain" -> s.cq = <<>> /\ ~s.cfin /\ ~s.crst
    [] OTHER -> FALSE
ServeBlocked == (srv = "accept" /\ lst = "open") \/ (srv = "wait" /\ Running # {}) \/ srv = "ret"
Quiet == ServeBlocked /\ \A c \in Conns : MainBlocked(c) /\ AuxBlocked(c)

Tick == /\ now < MaxNow /\ Quiet
        /\ now' = now + 1 /\ tr' = Log(Ev("Tick", 0, now + 1))
        /\ UNCHANGED <<st, ob, lst, srv>>

(* ------------------------------------------------------------------------ *)
EnvC(c) == \/ TargetPause(c) \/ TargetResume(c) \/ ClientPause(c) \/ ClientResume(c)
           \/ Connect(c) \/ ClientFin(c) \/ TargetSend(c) \/ TargetFin(c) \/ TargetRst(c) \/ TargetClose(c) \/ ClientRst(c)
           \/ \E tok \in NextToks(c) : ClientSend(c, tok)
MainC(c) == \/ Accept(c) \/ Start(c) \/ Read50Take(c) \/ Read50Fail(c) \/ Auth(c) \/ AddAuthenticated(c)
            \/ AbsorbTake(c) \/ AbsorbEnd(c) \/ AddProbe(c)
            \/ ReadAddrTake(c) \/ ReadAddrFail(c) \/ ClearDeadline(c) \/ DrainRawTake(c) \/ DrainRawEof(c) \/ Dial(c)
            \/ T2C_Copy(c) \/ T2C_Eof(c) \/ T2C_Err(c) \/ T2C_WriteErr(c) \/ FinToClient(c) \/ CloseReadTarget(c) \/ Join(c)
            \/ AddClosed(c) \/ Close(c) \/ HandlerDone(c)
AuxC(c) == \/ C2T_Left(c) \/ C2T_Copy(c) \/ C2T_Eof(c) \/ C2T_ReadErr(c) \/ DrainTake(c) \/ DrainEof(c)
           \/ CloseReadClient(c) \/ FinToTarget(c)
Serve == ServeBreak \/ ServeCancel \/ ServeReturn

\* nothing more can happen (clients that never connected are not waited for once the listener is closed)
Terminal == /\ \A c \in Conns : st[c].pc \in {"done", "reset"} \/ (st[c].pc = "idle" /\ lst = "closed")
            /\ (WithServe => srv = "ret")
Done == Terminal /\ UNCHANGED vars

Next == \/ \E c \in Conns : EnvC(c) \/ MainC(c) \/ AuxC(c)
        \/ CloseListener \/ Serve \/ Tick \/ Done

Spec == Init /\ [][Next]_vars

\* fairness: every goroutine runs, the clock runs, and the peers eventually finish what only they can finish
\* (connect, send FIN); they are not obliged to send data.
Fair == /\ \A c \in Conns : WF_vars(MainC(c)) /\ WF_vars(AuxC(c))
        /\ \A c \in Conns : WF_vars(Connect(c)) /\ WF_vars(ClientFin(c)) /\ WF_vars(TargetFin(c))
        /\ \A c \in Conns : WF_vars(TargetResume(c)) /\ WF_vars(ClientResume(c))
        /\ WF_vars(Serve) /\ WF_vars(Tick) /\ WF_vars(CloseListener)
LiveSpec == Spec /\ Fair
\* only the proxy's goroutines are fair: neither peer is obliged to do anything (half-close independence)
LiveSpecProxyOnly == Spec /\ \A c \in Conns : WF_vars(MainC(c)) /\ WF_vars(AuxC(c))

(* ======================================================================== *)
(* PROPERTY LAYER                                                           *)
(* Every predicate P(s, o) speaks about ONE connection and reads only       *)
(*   s: what the peers did   (hs, tk, cfin, tfin, trst, tcl, crst)          *)
(*   o: what was sent and what the observers saw (the fields of InitOb)     *)
(* so that TLC can evaluate the same text on the model (s = st[c],          *)
(* o = ob[c], every reachable state) and on records of the real code        *)
(* (TcpConnTrace: s, o built from the harness' logs).  Times are compared   *)
(* with SlackEarly/SlackLate (0 in the model and under virtual time).       *)
(* ======================================================================== *)
OHasBad(o)  == \E i \in 1..Len(o.csent) : o.csent[i].k \in {"bad", "badaddr"}
ONData(o)   == Len(SelectSeq(o.csent, LAMBDA x : x.k \in {"data", "addrplus"}))
Payload(o)  == Ids(ONData(o))                     \* what the client sent after the address header
Closed(o)   == o.closeAt # -1
Reported(o) == \E i \in 1..Len(o.mlog) : o.mlog[i].m = "Closed"
MCount(o, m) == Len(SelectSeq(o.mlog, LAMBDA x : x.m = m))
ClosedRec(o) == o.mlog[Len(o.mlog)]
DeadlineOf(o) == o.acceptAt + o.timeout
\* the opener is one that must authenticate: valid, fresh, and its 50th byte was sent before the deadline
\* (sent AT the deadline, within the slack: either outcome is acceptable)
MayAuth(s, o)  == s.hs = "valid" /\ o.preDoneAt # -1 /\ (o.acceptAt = -1 \/ o.preDoneAt <= DeadlineOf(o) + SlackSched)
MustAuth(s, o) == s.hs = "valid" /\ o.preDoneAt # -1 /\ (o.acceptAt = -1 \/ o.preDoneAt < DeadlineOf(o) - SlackSched)
MustFail(s, o) == s.hs # "valid" \/ (o.acceptAt # -1 /\ o.preDoneAt > DeadlineOf(o) + SlackSched)
                   \/ (o.preDoneAt = -1 /\ Reported(o))
\* the complete target address was sent in time / was surely not
AddrSent(o)    == o.addrDoneAt # -1 /\ o.addrDoneAt < DeadlineOf(o) - SlackSched
AddrMissing(o) == (o.addrDoneAt = -1 /\ Reported(o)) \/ (o.addrDoneAt # -1 /\ o.addrDoneAt > DeadlineOf(o) + SlackSched)
\* a connection on which nothing went wrong: valid fresh opener and valid address in time, reachable target, no
\* corrupt chunk, no reset
Clean(s, o) == MustAuth(s, o) /\ AddrSent(o) /\ s.tk = "ok" /\ ~OHasBad(o) /\ ~s.trst /\ ~o.cancelled /\ s.tcl = "no" /\ ~s.crst

(* ---- C02 --------------------------------------------------------------- *)
\* no loss, duplication, reordering, invention - on every connection, clean or not
C02_TargetPrefix(s, o) == IsPrefix(DataOf(o.tlog), Payload(o))
C02_ClientPrefix(s, o) == IsPrefix(DataOf(o.clog), Ids(o.tsent))
\* a half-close reaches the peer only after all data of that direction, and only if the sender did half-close
C02_FinToTargetAfterAll(s, o) ==
  Clean(s, o) /\ Has(o.tlog, 0) => s.cfin /\ DataOf(o.tlog) = Payload(o) /\ o.tlog[Len(o.tlog)] = 0
C02_FinToClientAfterAll(s, o) ==
  Clean(s, o) /\ Has(o.clog, 0) => s.tfin /\ DataOf(o.clog) = Ids(o.tsent) /\ o.clog[Len(o.clog)] = 0
\* a clean connection is reported only when both streams were delivered completely, with both FINs
C02_CompleteAtClose(s, o) ==
  Clean(s, o) /\ Reported(o) =>
     /\ DataOf(o.tlog) = Payload(o) /\ Has(o.tlog, 0)
     /\ DataOf(o.clog) = Ids(o.tsent) /\ Has(o.clog, 0)
     /\ ClosedRec(o).s = "OK"

\* (records of the real code) on a clean connection every delivery and every half-close that the model's behaviour has
\* before the peer's next action did happen before it, within the harness' wait bound: data and FIN of one direction do
\* not wait for the other direction.  In the model this is C02_FinToTargetLive / C02_FinToClientLive.
C02_Propagates(s, o) == Clean(s, o) => o.stalls \cap {"TRecv", "TSawFin", "CRecv", "CSawFin", "Dial"} = {}

(* ---- C06 --------------------------------------------------------------- *)
C06_Silent(s, o) == ~MayAuth(s, o) => o.wire.cr = 0 /\ DataOf(o.clog) = <<>>
C06_NoEarlyClose(s, o) ==
  MustFail(s, o) /\ Closed(o) =>
     \/ (o.cfinAt # -1 /\ o.cfinAt <= o.closeAt + SlackEarly)
     \/ o.closeAt >= DeadlineOf(o) - SlackEarly
\* same instant whatever was sent: a function of the accept time (and of the client's own FIN) only
ExpectedClose(o) == IF o.cfinAt # -1 THEN Min(Max(o.cfinAt, o.acceptAt), DeadlineOf(o)) ELSE DeadlineOf(o)
C06_CloseNotEarly(s, o) == MustFail(s, o) /\ Closed(o) => o.closeAt >= ExpectedClose(o) - SlackEarly
C06_CloseNotLate(s, o)  == MustFail(s, o) /\ Closed(o) => o.closeAt <= ExpectedClose(o) + SlackLate
\* a client that was quiet before the close sees a normal close (FIN), never a reset, and nothing else
C06_NormalClose(s, o) ==
  MustFail(s, o) /\ Closed(o) =>
     /\ Len(o.clog) = 1
     /\ (o.lastSendAt < o.closeAt - SlackSched => o.clog = <<0>>)
\* after authentication an invalid stream is drained: while the client keeps its side open the proxy neither closes,
\* nor half-closes towards the target, nor (unless the target ended the stream on its own) towards the client
C06_DrainHolds(s, o) ==
  MustAuth(s, o) /\ OHasBad(o) /\ ~s.cfin /\ s.tk = "ok" /\ ~s.trst /\ ~o.cancelled /\ ~s.crst =>
     /\ ~Reported(o)
     /\ ~Has(o.tlog, 0)
     /\ ~Has(o.clog, -1)
     /\ (Has(o.clog, 0) => s.tfin /\ ~o.tfinPolite)

(* ---- C15 --------------------------------------------------------------- *)
\* Open . Authenticated? . Probe? . Closed  (prefix-closed form)
C15_Language(s, o) ==
    LET m == o.mlog IN
    /\ (m # <<>> => m[1].m = "Open")
    /\ MCount(o, "Open") <= 1 /\ MCount(o, "Auth") <= 1 /\ MCount(o, "Probe") <= 1 /\ MCount(o, "Closed") <= 1
    /\ (Reported(o) => m[Len(m)].m = "Closed")
    /\ ~(MCount(o, "Auth") = 1 /\ MCount(o, "Probe") = 1)
\* every accepted connection is reported opened once and closed once by the time its handler has returned
C15_ReportedOnce(s, o) == o.handlerDone => MCount(o, "Open") = 1 /\ MCount(o, "Closed") = 1
C15_AuthOnlyIfAuthenticated(s, o) == MCount(o, "Auth") = 1 => MayAuth(s, o)
C15_ProbeIffFailed(s, o) ==
  Reported(o) =>
     /\ (MustFail(s, o) => MCount(o, "Probe") = 1 /\ MCount(o, "Auth") = 0)
     /\ (MustAuth(s, o) /\ ~MustFail(s, o) => MCount(o, "Probe") = 0 /\ MCount(o, "Auth") = 1)
C15_ProbeBytes(s, o) ==
  \A i \in 1..Len(o.mlog) : o.mlog[i].m = "Probe" =>
     /\ o.mlog[i].n[1] <= o.wire.cs
     /\ (o.drain = "eof" => o.mlog[i].n[1] = o.wire.cs)
     \* whatever ends the absorption (client's end of stream, timeout, the listener going away): what the prober had sent well
     \* before the server closed the connection was received, so the report carries all of it
     /\ (Closed(o) /\ ~s.crst /\ o.lastSendAt # -1 /\ o.lastSendAt < o.closeAt - SlackSched => o.mlog[i].n[1] = o.wire.cs)
     /\ (Reported(o) => o.mlog[i].n[1] = ClosedRec(o).n[1])
     \* (records of the real code only) second number = what the handler's read calls on the client socket had returned when
     \* AddProbe was called, counted by the harness underneath the handler: the report carries exactly that
     /\ (Len(o.mlog[i].n) >= 2 => o.mlog[i].n[1] = o.mlog[i].n[2])
\* outcome classes: one status per class
ExpectedStatus(s, o) ==
  LET h == s.hs
      possible == o.preDoneAt # -1 /\ o.preDoneAt <= DeadlineOf(o) + SlackSched
      certain  == o.preDoneAt # -1 /\ o.preDoneAt < DeadlineOf(o) - SlackSched IN
  IF MustFail(s, o) THEN (IF certain /\ h # "garbage" THEN {} ELSE {"ERR_CIPHER"})
                      \cup (IF possible /\ h = "replayC" THEN {"ERR_REPLAY_CLIENT"} ELSE {})
                      \cup (IF possible /\ h = "replayS" THEN {"ERR_REPLAY_SERVER"} ELSE {})
  ELSE IF ~MustAuth(s, o) THEN {"ERR_CIPHER", "ERR_READ_ADDRESS", "ERR_ADDRESS", "ERR_CONNECT", "ERR_RELAY_CLIENT", "ERR_RELAY_TARGET", "OK"}
  ELSE IF AddrMissing(o) \/ (\E i \in 1..Len(o.csent) : o.csent[i].k = "badaddr") THEN {"ERR_READ_ADDRESS"}
  ELSE IF ~AddrSent(o) THEN {"ERR_READ_ADDRESS", "ERR_ADDRESS", "ERR_CONNECT", "ERR_RELAY_CLIENT", "ERR_RELAY_TARGET", "OK"}
  ELSE IF s.tk = "deny" THEN {"ERR_ADDRESS"}
  ELSE IF s.tk = "refuse" THEN {"ERR_CONNECT"}
  ELSE IF o.cancelled THEN {"ERR_CONNECT", "ERR_RELAY_CLIENT", "ERR_RELAY_TARGET", "OK"}
  \* the client reset the connection: the socket error is delivered once, to the read (client->target copy) or to the write
  \* (target->client copy), whichever comes first; the other one sees a plain end of stream.  Never OK.
  ELSE IF s.crst THEN {"ERR_RELAY_CLIENT", "ERR_RELAY_TARGET"}
  ELSE IF OHasBad(o) THEN {"ERR_RELAY_CLIENT"}
  \* the target closed completely: the first chunk written after that is lost silently, the second write fails
  ELSE IF s.tcl # "no" THEN (IF o.afterClose >= 2 THEN {"ERR_RELAY_CLIENT"} ELSE {"OK", "ERR_RELAY_CLIENT"})
  ELSE IF s.trst THEN {"ERR_RELAY_CLIENT", "ERR_RELAY_TARGET"}
  ELSE {"OK"}
C15_Status(s, o) == Reported(o) => ClosedRec(o).s \in ExpectedStatus(s, o)
C15_OkIffComplete(s, o) == Reported(o) /\ Clean(s, o) => ClosedRec(o).s = "OK"
\* ... and OK only for complete success: both peers ended their streams in an orderly way, the proxy read everything
\* either of them sent and wrote all of it to the other side (and, unless the target had gone away, the target got it
\* all, with the end-of-stream); no socket error on either direction may be reported as OK
C15_OkMeansComplete(s, o) ==
  Reported(o) /\ ClosedRec(o).s = "OK" =>
     LET n == ClosedRec(o).n  w == o.wire IN
     /\ s.cfin /\ s.tfin /\ ~s.crst /\ ~s.trst
     /\ n[1] = w.cs /\ n[2] = w.cpl /\ n[3] = w.ts /\ n[4] = w.cr
     /\ Has(o.clog, 0) /\ DataOf(o.clog) = Ids(o.tsent)
     /\ (s.tcl = "no" => w.tr = w.cpl /\ Has(o.tlog, 0) /\ DataOf(o.tlog) = Payload(o))
C15_Counters(s, o) ==
  Reported(o) =>
     LET n == ClosedRec(o).n  w == o.wire IN
     \* received-from counters never exceed what the peer wrote; sent-to counters never exceed what the peer received,
     \* unless that peer reset the connection or was reset (bytes accepted by a kernel may be dropped unread)
     /\ n[1] <= w.cs /\ n[3] <= w.ts
     \* sent-to counters never exceed what the write system calls really handed to the sockets (whatever fails meanwhile)
     /\ n[2] <= w.pt /\ n[4] <= w.pc
     /\ (~s.trst /\ s.tcl = "no" /\ ~Has(o.tlog, -1) => n[2] <= w.tr) /\ (~Has(o.clog, -1) /\ ~s.crst => n[4] <= w.cr)
     /\ (ClosedRec(o).s = "OK" => n[1] = w.cs /\ (s.tcl = "no" => n[2] = w.tr) /\ n[3] = w.ts /\ n[4] = w.cr)

(* ---- C18 (per connection) ------------------------------------------------ *)
\* when everything has come to rest, the handler of every accepted connection has returned
C18_HandlerReturned(s, o) == o.acceptAt # -1 => o.handlerDone

\* families, as evaluated on records of the real code.  "Any" may be evaluated at any moment of a run (monotone in the
\* observers' logs); "Final" only when the run is over and every observer has read to the end of its stream.
PropsAny == {"C02_TargetPrefix", "C02_ClientPrefix", "C02_Propagates", "C02_FinToTargetAfterAll", "C02_FinToClientAfterAll",
             "C06_Silent", "C06_NoEarlyClose", "C06_DrainHolds", "C15_Language", "C15_AuthOnlyIfAuthenticated"}
PropsFinal == PropsAny \cup {"C18_HandlerReturned", "C15_ReportedOnce", "C02_CompleteAtClose", "C06_CloseNotEarly", "C06_CloseNotLate", "C06_NormalClose",
                             "C15_ProbeIffFailed", "C15_ProbeBytes", "C15_Status", "C15_OkIffComplete", "C15_OkMeansComplete",
                             "C15_Counters"}
Holds(p, s, o) ==
  CASE p = "C02_TargetPrefix" -> C02_TargetPrefix(s, o)
    [] p = "C02_ClientPrefix" -> C02_ClientPrefix(s, o)
    [] p = "C02_FinToTargetAfterAll" -> C02_FinToTargetAfterAll(s, o)
    [] p = "C02_FinToClientAfterAll" -> C02_FinToClientAfterAll(s, o)
    [] p = "C02_CompleteAtClose" -> C02_CompleteAtClose(s, o)
    [] p = "C02_Propagates" -> C02_Propagates(s, o)
    [] p = "C06_Silent" -> C06_Silent(s, o)
    [] p = "C06_NoEarlyClose" -> C06_NoEarlyClose(s, o)
    [] p = "C06_CloseNotEarly" -> C06_CloseNotEarly(s, o)
    [] p = "C06_CloseNotLate" -> C06_CloseNotLate(s, o)
    [] p = "C06_NormalClose" -> C06_NormalClose(s, o)
    [] p = "C06_DrainHolds" -> C06_DrainHolds(s, o)
    [] p = "C15_Language" -> C15_Language(s, o)
    [] p = "C18_HandlerReturned" -> C18_HandlerReturned(s, o)
    [] p = "C15_ReportedOnce" -> C15_ReportedOnce(s, o)
    [] p = "C15_AuthOnlyIfAuthenticated" -> C15_AuthOnlyIfAuthenticated(s, o)
    [] p = "C15_ProbeIffFailed" -> C15_ProbeIffFailed(s, o)
    [] p = "C15_ProbeBytes" -> C15_ProbeBytes(s, o)
    [] p = "C15_Status" -> C15_Status(s, o)
    [] p = "C15_OkIffComplete" -> C15_OkIffComplete(s, o)
    [] p = "C15_OkMeansComplete" -> C15_OkMeansComplete(s, o)
    [] p = "C15_Counters" -> C15_Counters(s, o)
Failing(ps, s, o) == {p \in ps : ~Holds(p, s, o)}

(* ---- the same predicates as invariants of the model --------------------- *)
TypeOK == /\ now \in 0..MaxNow /\ lst \in {"open", "closed"} /\ srv \in {"accept", "cancel", "wait", "ret"}
          /\ \A c \in Conns : st[c].got \in 0..2 /\ Len(st[c].left) <= 1
Inv_C02 == \A c \in Conns : Failing({"C02_TargetPrefix", "C02_ClientPrefix", "C02_FinToTargetAfterAll",
                                     "C02_FinToClientAfterAll", "C02_CompleteAtClose"}, st[c], ob[c]) = {}
Inv_C06 == \A c \in Conns : Failing({"C06_Silent", "C06_NoEarlyClose", "C06_CloseNotEarly", "C06_CloseNotLate",
                                     "C06_NormalClose"}, st[c], ob[c]) = {}
Inv_C06Drain == \A c \in Conns : C06_DrainHolds(st[c], ob[c])
Inv_C15 == \A c \in Conns : Failing({"C15_ReportedOnce", "C15_Language", "C15_AuthOnlyIfAuthenticated", "C15_ProbeIffFailed", "C15_ProbeBytes",
                                     "C15_Status", "C15_OkIffComplete", "C15_OkMeansComplete", "C15_Counters"}, st[c], ob[c]) = {}
\* model only: the counters are advanced by the very actions that move the bytes
C15_CountersTrackDelivery ==
  \A c \in Conns : /\ st[c].cnt.pc = Len(DataOf(ob[c].clog)) /\ st[c].cnt.pc = ob[c].wire.cr
                   /\ (st[c].tcl = "no" => st[c].cnt.pt = Len(DataOf(ob[c].tlog)) /\ st[c].cnt.pt = ob[c].wire.tr)
\* model only - independence: the end of one direction does not stop the other
C02_Independent ==
  \A c \in Conns : Clean(st[c], ob[c]) /\ st[c].tgt = "up" =>
     /\ (~(st[c].tfin /\ st[c].tq = <<>>) => st[c].pc = "t2c")
     /\ (~(st[c].cfin /\ st[c].cq = <<>> /\ st[c].left = <<>>) => st[c].pa = "copy")
\* model only - the 50 key-search bytes are given back to the decrypting reader before anything else is decrypted
C02_Buf50First == \A c \in Conns : st[c].buf50 => st[c].pc \in {"authd", "readaddr"} /\ ob[c].tlog = <<>>
\* model only - bounded: once the deadline is due an unauthenticated connection is never blocked (with Tick's
\* urgency it closes in the same instant)
C06_NotStuckAfterDeadline ==
  \A c \in Conns : st[c].pc \in {"read50", "auth", "absorb", "probe"} /\ Due(c) => ~MainBlocked(c)
\* liveness (LiveSpecProxyOnly): a half-close of one peer reaches the other together with all data before it, whatever
\* the other direction does (its peer may stay silent and open for ever)
C02_FinToTargetLive == \A c \in Conns : (Clean(st[c], ob[c]) /\ st[c].cfin /\ st[c].tgt = "up") ~> (Has(ob[c].tlog, 0) /\ DataOf(ob[c].tlog) = Payload(ob[c]))
C02_FinToClientLive == \A c \in Conns : (Clean(st[c], ob[c]) /\ st[c].tfin) ~> (Has(ob[c].clog, 0) /\ DataOf(ob[c].clog) = Ids(ob[c].tsent))
\* liveness (LiveSpec): every accepted connection ends, hence (CompleteAtClose) everything sent is delivered
C02_Live == \A c \in Conns : (st[c].pc = "start") ~> (st[c].pc = "done")

(* ---- C18 (TCP part) ---------------------------------------------------- *)
\* no goroutine, no socket survives
C18_NoLeak ==
  Terminal => \A c \in Conns : /\ st[c].pa \in {"none", "done"}
                               /\ st[c].tgt # "up"
                               /\ st[c].csock # "open" \/ st[c].pc = "idle"
C18_AllReturned == Terminal => \A c \in Conns : C18_HandlerReturned(st[c], ob[c])
C18_ServeWaits == srv = "ret" => Running = {} /\ lst = "closed"
\* every step touches at most one connection (a failure on i leaves j untouched); closing the listener makes the
\* kernel reset every connection that was never accepted
C18_Isolation == [][lst' = lst => \E i \in Conns : \A j \in Conns \ {i} : st[j]' = st[j] /\ ob[j]' = ob[j]]_<<st, ob, lst>>
\* the target socket never outlives the handler, the client socket is closed by the time the handler is done
C18_SocketsFollowHandler ==
  \A c \in Conns : st[c].pc \in {"exit", "done"} => st[c].csock = "closed" /\ st[c].tgt # "up" /\ st[c].pa \in {"none", "done"}
\* every handler path terminates (LiveSpec); with deadlock checking: no state without a successor except Terminal
C18_Terminates == \A c \in Conns : (st[c].pc = "start") ~> (st[c].pc = "done")
C18_ServeReturns == WithServe => <>(srv = "ret")

View == <<st, ob, now, lst, srv>>
\* for properties that speak about the mechanism state only (C18): observations do not distinguish states
ViewMech == <<st, now, lst, srv>>
===============================================================================
