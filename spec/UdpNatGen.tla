------------------------------ MODULE UdpNatGen ------------------------------
(* Behaviour generation (spec -> code).  With Sync = TRUE the environment acts only when the proxy is
   quiescent, which is the schedule a step-synchronous driver realises: it performs one environment step
   (client datagram, datagram to an association's socket, idle period, listener shutdown) and lets the real
   code settle.  Each simulated behaviour ends with one Finish step that prints its history as JSON; the
   driver's recorded observations are then judged by UdpNatTrace. *)
EXTENDS UdpNat, Json
CONSTANT GenLen          \* environment steps per behaviour
VARIABLES done, kind      \* kind: which sort of environment step comes next (balances the random walk)
\* clients 1,2: same IP, different ports; 3: a second IP; 4: a third IP
GenIPOf == [c \in Clients |-> IF c <= 2 THEN 1 ELSE c]
GenSaltSz == [k \in Keys |-> 32]
GenInitList == [i \in 1..Cardinality(Keys) |-> i]
\* senders: 1 A (v4 non-DNS target)  2 B (v4 port 53 target)  3 forbidden destination  4 C (v6 non-DNS target)
\*          5 D (v6 port 53 target)  6 other port of A's host  7 stranger (v4)  8 stranger on port 53
\*          9 stranger bound to the zoned link-local address  10 E (public v4 target on eth0)
\*          16 localhost:pA' (the NAME of 11, the port of 6)  17 alt.verif.test:pA' (a name as long as 12's, -> A2)
\*          18 C2 (another port of C's host, v6)
GenFam == [s \in Senders |-> IF s \in {4, 5, 13, 18} THEN "v6" ELSE IF s = 9 THEN "zoned"
                              ELSE IF s \in {11, 16} THEN "name9" ELSE IF s \in {12, 17} THEN "name14" ELSE "v4"]
D(c, k, hdr, dst, cls) == [c |-> c, k |-> k, hdr |-> hdr, dst |-> dst, cls |-> cls]
R(s, cls) == [s |-> s, cls |-> cls]
\* 14 = a loopback address with port 0, 15 = the public address with port 0: allowed by the validator, but the outbound
\* socket's WriteTo fails (EINVAL) - the association must be left as it is
GenDgFail(t) == {D(c, k, TRUE, t, cls) : c \in Clients, k \in Keys, cls \in {"0", "1", "1000", "max"}}
\* real-socket driver: all clients, all keys and no key, every size class, allowed v4/v6/DNS and forbidden destinations
GenDgReal == {D(c, k, TRUE, dst, cls) : c \in Clients, k \in Keys \cup {0}, dst \in {1, 2, 4, 10}, cls \in {"0", "1", "1000", "max"}}
               \cup GenDgFail(14)
               \cup {D(c, k, FALSE, 1, cls) : c \in Clients, k \in Keys, cls \in {"0", "1", "1000"}}
               \cup {D(c, k, TRUE, 3, cls) : c \in Clients, k \in Keys, cls \in {"0", "1", "1000"}}
GenRpReal == {R(s, cls) : s \in {1, 2, 4, 6, 7, 8, 10}, cls \in {"0", "1", "1000"}}
               \cup {R(s, cls) : s \in {1, 4}, cls \in {"fit", "fit1", "big"}}
\* real-socket driver with the handler's DEFAULT validator (RequirePublicIP), destinations also named by HOST NAME
\* (SOCKS type 3): 11 = localhost (-> 127.0.0.1, forbidden), 12 = a name resolving to the public target E (allowed),
\* 13 = a name resolving to the ULA address fd00::2 (forbidden); the loopback literals 1, 2, 4 and the ULA literal 3 are
\* forbidden here, only 10 and 12 are allowed
GenDgDef == {D(c, k, TRUE, dst, cls) : c \in Clients, k \in Keys \cup {0}, dst \in {10, 12}, cls \in {"0", "1", "1000", "max"}}
              \cup GenDgFail(15)
              \cup {D(c, k, TRUE, dst, cls) : c \in Clients, k \in Keys, dst \in {1, 3, 4, 11, 13}, cls \in {"0", "1"}}
              \cup {D(c, k, FALSE, 10, "1") : c \in Clients, k \in Keys}
GenRpDef == {R(s, cls) : s \in {10, 6, 7, 8}, cls \in {"0", "1", "1000"}} \cup {R(10, "fit"), R(10, "big")}
\* virtual-time natmap harness: only forwarded datagrams matter (the harness plays the Handle loop)
\* (3 = a destination to which the fake outbound conn's WriteTo fails)
GenDgVirt == {D(c, 1, TRUE, dst, "1") : c \in Clients, dst \in {1, 2, 3}}
\* datagrams delivered to the association's socket while the harness (playing Handle) is INSIDE natconn.WriteTo: a gate in the
\* fake conn's SetReadDeadline
GenMidVirt == {R(2, "1"), R(8, "1"), R(1, "1")}
GenRpVirt == {R(s, cls) : s \in {1, 2, 7, 8}, cls \in {"0", "1"}}

\* focused families (few clients, one key): a send that fails on a live association, a DNS query answered by another host
\* first, replies around failing sends (real sockets) ...
\* (client 3 only ever names the unsendable destination: "the very first datagram of an association cannot be sent, then silence")
GenDgFocus == {D(c, 1, TRUE, dst, cls) : c \in {1, 2}, dst \in {1, 2, 14}, cls \in {"0", "1"}} \cup {D(3, 1, TRUE, 14, "1")}
GenRpFocus == {R(s, cls) : s \in {1, 2, 6}, cls \in {"0", "1"}} \cup {R(1, "fit1"), R(1, "big")}
\* ... and (virtual time) a second DNS query during which a port-53 datagram arrives inside natconn.WriteTo
\* ... a client that sends once while a target keeps pushing datagrams across several timeouts, a first datagram that cannot be sent
GenDgVirtMid == {D(1, 1, TRUE, 2, "1"), D(1, 1, TRUE, 3, "1"), D(1, 1, TRUE, 1, "1"), D(2, 1, TRUE, 3, "1")}
GenRpVirtMid == {R(1, "1"), R(1, "0")}
GenMidVirtMid == {R(2, "1"), R(8, "1")}
\* target switches INSIDE one association (real sockets, validator = loopback + public): each client sends only under its own
\* key, so every datagram after the first travels the known-association path of Handle; the destinations come in groups
\* whose SOCKS address headers have the SAME length and differ in the address and/or the port only:
\*   7 bytes: 1 (127.0.0.1:pA)  6 (127.0.0.1:pA', same IP other port)  10 (192.0.2.2:pE, other IP)
\*  19 bytes: 4 ([::1]:pC)  18 ([::1]:pC', same IP other port)
\*  13 bytes: 11 (localhost:pA)  16 (localhost:pA', same name other port)
\*  18 bytes: 12 (pub.verif.test:pE)  17 (alt.verif.test:pA', other name of equal length)
\* No idle periods (Ticks = {} in the cfg): the association lives through the whole behaviour (A,A,B / A,B,A / A,B,B,A ...).
\* The verdict is the property layer's FwdToNamed / FwdAuthentic / FwdOnce / FwdComplete on what the targets received.
GenDgSwitch == {D(c, c, TRUE, dst, cls) : c \in Clients, dst \in {1, 6, 10, 4, 18, 11, 16, 12, 17}, cls \in {"0", "1", "1000"}}
GenRpSwitch == {R(s, "1") : s \in {1, 6, 10}}
\* a switch: the j-th (j >= 3) well-formed datagram of client c under its key names another destination than the one before
\* it, with an address header of the same length (what a per-association "last target" shortcut would get wrong)
DgsOf(c) == SelectSeq(tr, LAMBDA x : x.a = "CDgram" /\ x.c = c)
SwitchesOf(c) == LET s == DgsOf(c) IN
                   {j \in 3..Len(s) : s[j].dst # s[j-1].dst /\ HdrLen(s[j].dst) = HdrLen(s[j-1].dst)}
NSwitches == LET RECURSIVE Sum(_)
                 Sum(S) == IF S = {} THEN 0 ELSE LET c == CHOOSE c \in S : TRUE IN Cardinality(SwitchesOf(c)) + Sum(S \ {c})
             IN Sum(Clients)
GenInit == Init /\ done = FALSE /\ kind = 0
NEnv == Len(tr)
\* steering of the switch family only: a client mostly stays within the group of destinations whose address header is as long
\* as that of its previous datagram (it leaves the group with the "1000" datagrams only), so that most of its datagrams from the
\* third on ARE switches between same-length headers; the other families are not restricted
SwitchFamily == DgAlpha = GenDgSwitch
\* (IF, not \/: TLC splits a disjunction inside an action into alternatives and evaluates every one of them)
Steer(x) == IF ~SwitchFamily THEN TRUE
            ELSE LET s == DgsOf(x.c) IN
                   IF Len(s) = 0 \/ x.cls = "1000" THEN TRUE ELSE HdrLen(x.dst) = HdrLen(s[Len(s)].dst)
EnvC == \E x \in DgAlpha : Steer(x) /\ ClientSend(x.c, x.k, x.hdr, x.dst, x.cls)
EnvS == \E x \in RpAlpha, a \in 1..MaxAssoc : SenderSend(x.s, a, x.cls)
EnvT == \E d \in Ticks : Tick(d)
KindOf(n) == IF n <= 9 THEN "C" ELSE IF n <= 15 THEN "S" ELSE IF n <= 19 THEN "T" ELSE "X"
\* the random walk chooses uniformly among successor states; drawing the kind first keeps the large datagram
\* alphabet from crowding out replies, idle periods and shutdown
PickKind == /\ ~done /\ kind = 0 /\ Quiet /\ NEnv < GenLen /\ h.pc # "returned"
            /\ \E n \in 1..20 : /\ kind' = n
                                /\ CASE KindOf(n) = "C" -> ENABLED EnvC
                                     [] KindOf(n) = "S" -> ENABLED EnvS
                                     [] KindOf(n) = "T" -> ENABLED EnvT
                                     [] OTHER -> ENABLED CloseListener
            /\ UNCHANGED <<vars, done>>
EnvStep == /\ ~done /\ kind # 0 /\ kind' = 0 /\ UNCHANGED done
           /\ CASE KindOf(kind) = "C" -> EnvC [] KindOf(kind) = "S" -> EnvS [] KindOf(kind) = "T" -> EnvT [] OTHER -> CloseListener
Internal == /\ ~done /\ ~Quiet /\ UNCHANGED <<done, kind>>
            /\ \/ HandleStep \/ \E a \in 1..MaxAssoc : AssocStep(a)
               \/ \E x \in MidAlpha, a \in 1..MaxAssoc : SenderSendMid(x.s, a, x.cls)
Finish == ~done /\ kind = 0 /\ Quiet /\ (NEnv >= GenLen \/ h.pc = "returned") /\ done' = TRUE /\ UNCHANGED <<vars, kind>>
GenNext == PickKind \/ EnvStep \/ Internal \/ Finish
GenSpec == GenInit /\ [][GenNext]_<<vars, done, kind>>
DumpInv == done => PrintT(<<"BEH", ToJson(tr)>>)
\* (switch family) how many target switches of the kind described at GenDgSwitch the finished behaviour contains
DumpSw == done => PrintT(<<"SWITCHES", NSwitches>>)
NoMid == {}
=============================================================================
