SPECIFICATION GenSpec
CONSTANTS
  Keys <- KeysQ
  Conns = {1, 2, 3, 4, 5, 6, 7, 8}
  CacheModes = {"nil", "zero", "on"}
  MaxSalt = 16
  Faults = FALSE
  MaxInFlight = 1
INVARIANTS DumpInv
CHECK_DEADLOCK FALSE
