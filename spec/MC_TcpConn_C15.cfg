\* C15 exhaustive: every outcome class (all openers x ok/refuse/deny targets x corrupt chunks x target reset)
SPECIFICATION Spec
CONSTANTS
  Conns = {1}
  HsKinds = {"valid", "garbage", "replayC", "replayS"}
  TgtKinds = {"ok", "refuse", "deny"}
  MaxC = 2
  MaxT = 2
  MaxTok = 6
  AllowBad = TRUE
  AllowSplit = FALSE
  AllowRst = TRUE
  Timeout = 2
  MaxNow = 3
  DrainMode = "raw"
  Strict = FALSE
  WithServe = FALSE
  Hist = FALSE
INVARIANTS C15_Language C15_AuthOnlyIfAuthenticated C15_ProbeIffFailed C15_ProbeBytes C15_Status C15_OkIffComplete C15_Counters
INVARIANTS TypeOK C02_TargetPrefix C02_ClientPrefix C02_FinToTargetAfterAll C02_FinToClientAfterAll C02_Independent C02_CompleteAtClose
INVARIANTS C06_Silent C06_NoEarlyClose C06_CloseInstant C06_NormalClose C06_NotStuckAfterDeadline C06_DrainHolds
INVARIANTS C18_NoLeak C18_ServeWaits C18_SocketsFollowHandler
VIEW View
