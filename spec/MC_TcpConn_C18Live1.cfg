SPECIFICATION LiveSpec
CONSTANTS
  Conns = {1}
  HsKinds = {"valid", "garbage"}
  TgtKinds = {"ok", "refuse"}
  MaxC = 1
  MaxT = 0
  MaxTok = 4
  AllowBad = TRUE
  AllowSplit = FALSE
  AllowRst = FALSE
  AllowTClose = FALSE
  AllowCRst = FALSE
  AllowPause = FALSE
  Planned = FALSE
  Timeout = 2
  MaxNow = 2
  DrainMode = "raw"
  Strict = TRUE
  WithServe = TRUE
  Hist = FALSE
  SlackEarly = 0
  SlackLate = 0
  SlackSched = 0
PROPERTIES C18_Terminates C18_ServeReturns
