\* exhaustive, quick tier: 4 hashes, capacities 0..3, <= 9 operations
SPECIFICATION Spec
CONSTANTS
  Hashes = {1, 2, 3, 4}
  Caps = {0, 1, 2, 3}
  MaxOps = 9
INVARIANTS TypeOK RecentRefused FreshAccepted RememberedWereSeen
VIEW View
CHECK_DEADLOCK FALSE
