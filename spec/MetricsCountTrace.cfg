\* the check rewrites NK / MaxConn to fit the recorded trace
SPECIFICATION TraceSpec
CONSTANTS
  NK = 3
  NST = 3
  NL = 3
  NSU = 2
  EmptyKey = 2
  MaxConn = 10
  MaxOps = 0
  Amounts = {0}
  Counts = {1}
INVARIANTS Report
POSTCONDITION TraceAccepted
CHECK_DEADLOCK FALSE
