SPECIFICATION TraceSpec
CONSTANTS
  IPs <- TraceNone
  Slots <- TraceSlots
  Shapes <- TraceNone
  Openers <- TraceNone
  MaxUpd = 0
  MaxLk = 0
  MaxSlot = 64
  MaxGen = 64
INVARIANTS Report
POSTCONDITION TraceAccepted
CHECK_DEADLOCK FALSE
