SPECIFICATION FairSpec
CONSTANTS
  Threads = {1, 2, 3}
  Keys = {1, 2, 3, 4, 5}
  ForeignKeys = {4, 5}
  KindOf <- MCKindOf
  ScriptChoices <- ScrStuck
  Step <- StepNoHist
  NItems = 2
  NH = 3
  MaxObj = 3
  MaxSock = 3
  CbUnderLock = TRUE
  Capture = FALSE
  GiveUp = FALSE
  PreCheckClosed = FALSE
  NilPacketSock = FALSE
  CloseWaits = FALSE
  ErrAware = TRUE
  RecheckAfterRecv = FALSE
  AcceptErrors = 0
PROPERTIES GoroutinesEnd
