SPECIFICATION GenSpec
CONSTANTS
  ConfigSet <- Cat
  KeyCS <- MCKeyCS
  KeyID <- MCKeyID
  Listeners <- MCListeners
  MaxLoads = 4
  ZombieOnFail = FALSE
INVARIANTS DumpInv
CHECK_DEADLOCK FALSE
