\* C18 exhaustive: 2 concurrent connections, every failure class on one of them, listener closed at any time
SPECIFICATION Spec
CONSTANTS
  Conns = {1, 2}
  HsKinds = {"valid", "garbage"}
  TgtKinds = {"ok", "refuse"}
  MaxC = 1
  MaxT = 1
  MaxTok = 4
  AllowBad = TRUE
  AllowSplit = FALSE
  AllowRst = TRUE
  Timeout = 2
  MaxNow = 2
  DrainMode = "raw"
  Strict = TRUE
  WithServe = TRUE
  Hist = FALSE
INVARIANTS C18_NoLeak C18_ServeWaits C18_SocketsFollowHandler
INVARIANTS C15_Language C15_AuthOnlyIfAuthenticated C15_ProbeIffFailed C15_ProbeBytes C15_Status C15_OkIffComplete C15_Counters
PROPERTIES C18_Isolation
VIEW View
