SPECIFICATION GenSpec
CONSTANTS
  Conns = {1, 2}
  HsKinds = {"valid"}
  TgtKinds = {"ok"}
  MaxC = 1
  MaxT = 1
  MaxTok = 4
  AllowBad = FALSE
  AllowSplit = FALSE
  AllowRst = FALSE
  AllowTClose = FALSE
  AllowCRst = FALSE
  AllowPause = FALSE
  Planned = TRUE
  Timeout = 2
  MaxNow = 0
  DrainMode = "raw"
  Strict = TRUE
  WithServe = TRUE
  Hist = TRUE
  SlackEarly = 0
  SlackLate = 0
  SlackSched = 0
INVARIANTS DumpInv
ACTION_CONSTRAINT Containment
CHECK_DEADLOCK FALSE
