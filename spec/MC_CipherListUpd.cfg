\* exhaustive, quick (b): 2 concurrent lookups (3 in all) across 2 Updates
SPECIFICATION Spec
CONSTANTS
  IPs = {1, 2}
  Slots = {1, 2}
  Shapes <- ShapesQ
  Openers <- OpenersQ
  MaxUpd = 2
  MaxLk = 3
INVARIANTS TypeOK Sound Complete SnapshotIsPermutation NoAuthNoEffect InvalidRefused ListWellFormed
VIEW View
CHECK_DEADLOCK FALSE
