\* C18 exhaustive: 2 concurrent connections, every failure class on one of them, listener closed at any time
SPECIFICATION Spec
CONSTANTS
  Conns = {1, 2}
  HsKinds = {"valid", "garbage"}
  TgtKinds = {"ok", "refuse"}
  MaxC = 1
  MaxT = 0
  MaxTok = 3
  AllowBad = FALSE
  AllowSplit = FALSE
  AllowRst = FALSE
  AllowTClose = FALSE
  AllowCRst = FALSE
  AllowPause = FALSE
  Planned = FALSE
  Timeout = 2
  MaxNow = 0
  DrainMode = "raw"
  Strict = TRUE
  WithServe = TRUE
  Hist = FALSE
  SlackEarly = 0
  SlackLate = 0
  SlackSched = 0
INVARIANTS C18_NoLeak C18_AllReturned C18_ServeWaits C18_SocketsFollowHandler
PROPERTIES C18_Isolation
VIEW ViewMech
