\* step-synchronous schedules (what the drivers realise), incl. completeness; C03/C04/C16 family: authentication, attribution, routing.  3 clients, 3 keys, 2 allowed targets + 1 forbidden
SPECIFICATION Spec
CONSTANTS
  Clients = {1, 2, 3}
  IPOf <- MCIPOf
  Keys = {1, 2, 3}
  InitList <- MCInitList
  SaltSz <- MCSaltSz
  Senders = {1, 2, 3, 4}
  Targets = {1, 2, 3}
  DnsPort = {2}
  Allowed = {1, 2}
  Unsendable = {}
  DisarmFirst = TRUE
  Fam <- MCFam
  DgAlpha <- DgC03
  RpAlpha <- RpC03
  MidAlpha <- NoMid
  Sync = TRUE
  T = 2
  DNST = 3
  Ticks = {3}
  MaxNow = 3
  MaxDg = 3
  MaxRp = 1
  MaxAssoc = 3
  Slack = 0
  Bound = 0
  ZonedPanics = FALSE
INVARIANTS TypeOK MechNat FwdAuthentic FwdToNamed FwdOnce ReplyAuthentic ReplyOnce SaltsFresh CreateOnlyValid CreateOnce SrcPrivate OwnerOnly SrcStable FwdComplete ReplyComplete OnePerClient NoCrash HandleTotal PktCSound PktTSound PktCPerDatagram PktTPerReply PktTSize MetricsLanguage RemoveOnce ReclaimedInTime NoEarlyRemoval AllReclaimed ShutdownReclaimed
VIEW View
CHECK_DEADLOCK FALSE
