\* exhaustive, thorough: 4 connections (2 in flight) over 3 keys (32-byte marked, 24-byte marked, 16-byte unmarked; one
\* secret), replay cache absent / on   (9.1M distinct states)
SPECIFICATION Spec
CONSTANTS
  Keys <- KeysS
  Conns = {1, 2, 3, 4}
  CacheModes = {"nil", "on"}
  MaxSalt = 6
  Faults = TRUE
  MaxInFlight = 2
INVARIANTS TypeOK RespSaltsFresh RespSaltsRecognised ReflectedNeverAuthenticated StatusClasses ProbeNoEffect
VIEW View
CHECK_DEADLOCK FALSE
