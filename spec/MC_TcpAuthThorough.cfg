\* exhaustive, thorough: 4 connections, 3 in flight
SPECIFICATION Spec
CONSTANTS
  Keys <- KeysQ
  Conns = {1, 2, 3, 4}
  CacheModes = {"nil", "zero", "on"}
  MaxSalt = 8
  MaxInFlight = 3
INVARIANTS TypeOK RespSaltsFresh RespSaltsRecognised ReflectedNeverAuthenticated StatusClasses ProbeNoEffect
VIEW View
CHECK_DEADLOCK FALSE
