---------------------------- MODULE ReplayCacheGen ----------------------------
(* Behaviour generation (spec -> code): each simulated behaviour ends with one Finish step that prints its
   history as JSON.  Used with `tlc -simulate`. *)
EXTENDS ReplayCache, Json
VARIABLE done
GenInit == Init /\ done = FALSE
Finish == nops = MaxOps /\ ~done /\ done' = TRUE /\ UNCHANGED vars
GenNext == (Next /\ UNCHANGED done) \/ Finish
GenSpec == GenInit /\ [][GenNext]_<<vars, done>>
DumpInv == done => PrintT(<<"BEH", ToJson(tr)>>)
===============================================================================
