SPECIFICATION GenSpec
CONSTANTS
  IPs = {1, 2, 3}
  Slots = {1, 2, 3}
  Shapes <- ShapesH
  Openers <- OpenersH
  MaxUpd = 2
  MaxLk = 9
INVARIANTS DumpInv
CHECK_DEADLOCK FALSE
