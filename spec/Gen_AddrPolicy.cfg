\* behaviour generation (exhaustive BFS over the sandbox-executable scenario machine, no VIEW: one BEH per history)
SPECIFICATION GenSpec
CONSTANTS
  Modes = {"tcp", "udp"}
  LogLevels = {"info", "debug"}
  MaxPkts = 3
  ValidateKnown = TRUE
  TcpDests <- BehTcpDests
  UdpDests <- BehUdpDests
  UdpFirst <- BehUdpDests
INVARIANTS DumpInv
CHECK_DEADLOCK FALSE
