\* C06 exhaustive: all opener classes, lengths 0/<50/50/>50 in several pieces, FIN or not, clock to beyond the deadline
SPECIFICATION Spec
CONSTANTS
  Conns = {1}
  HsKinds = {"valid", "garbage", "replayC", "replayS"}
  TgtKinds = {"ok"}
  MaxC = 1
  MaxT = 1
  MaxTok = 5
  AllowBad = TRUE
  AllowSplit = FALSE
  AllowRst = FALSE
  AllowTClose = FALSE
  AllowCRst = FALSE
  AllowPause = FALSE
  Planned = FALSE
  Timeout = 2
  MaxNow = 4
  DrainMode = "raw"
  Strict = FALSE
  WithServe = FALSE
  Hist = FALSE
  SlackEarly = 0
  SlackLate = 0
  SlackSched = 0
INVARIANTS Inv_C06 Inv_C06Drain C06_NotStuckAfterDeadline
INVARIANTS Inv_C15 C15_CountersTrackDelivery
INVARIANTS C18_NoLeak C18_AllReturned C18_ServeWaits C18_SocketsFollowHandler
VIEW View
