\* C06 exhaustive: all opener classes, lengths 0/<50/50/>50 in several pieces, FIN or not, clock to beyond the deadline
SPECIFICATION Spec
CONSTANTS
  Conns = {1}
  HsKinds = {"valid", "garbage", "replayC", "replayS"}
  TgtKinds = {"ok"}
  MaxC = 1
  MaxT = 1
  MaxTok = 5
  AllowBad = TRUE
  AllowSplit = FALSE
  AllowRst = FALSE
  Timeout = 2
  MaxNow = 4
  DrainMode = "raw"
  Strict = FALSE
  WithServe = FALSE
  Hist = FALSE
INVARIANTS C06_Silent C06_NoEarlyClose C06_CloseInstant C06_NormalClose C06_NotStuckAfterDeadline C06_DrainHolds
INVARIANTS C15_Language C15_AuthOnlyIfAuthenticated C15_ProbeIffFailed C15_ProbeBytes C15_Status C15_OkIffComplete C15_Counters
INVARIANTS C18_NoLeak C18_ServeWaits C18_SocketsFollowHandler
VIEW View
