\* exhaustive, quick tier, second half: every boundary address as FIRST datagram of a UDP association, followed by
\* one datagram from a tiny set (known-association branch)
SPECIFICATION Spec
CONSTANTS
  Modes = {"udp"}
  LogLevels = {"info", "debug"}
  MaxPkts = 2
  ValidateKnown = TRUE
  TcpDests <- McTcpDests
  UdpDests <- McUdpSecond
  UdpFirst <- McUdpFirst
INVARIANTS TypeOK NoPrivateContact UdpStatusClass UdpPublicOpens UdpOutcomeAgrees
VIEW View
CHECK_DEADLOCK FALSE
