------------------------------ MODULE TunnelTime ------------------------------
(***************************************************************************)
(* prometheus/metrics.go: tunnel-time accounting of the real collectors.   *)
(*                                                                         *)
(* Mechanism layer (one action per critical section of the Go code):       *)
(*   Open / Auth / Close        AddOpenTCPConnection -> AddAuthenticated   *)
(*                              -> AddClosed            (:534, :120, :128) *)
(*   NatAdd / NatRemove         AddUDPNatEntry -> RemoveNatEntry (:255,:278)*)
(*   StartConn / StopConn       startConnection / stopConnection under mu  *)
(*                              (:446-456, :459-472), activeClients keyed  *)
(*                              by (ip, accessKey), connCount, startTime   *)
(*   CollectBegin               Collect's clock read `tNow := now()` (:425)*)
(*   CollectLocked              Lock; reportTunnelTime for every active    *)
(*                              client; Unlock          (:426-430, :436-443)*)
(*   Tick(d)                    the (stubbed) clock advances               *)
(* The code AS IT IS reads the clock BEFORE taking the lock                *)
(* (ClockUnderLock = FALSE).  ClockUnderLock = TRUE is the variant in      *)
(* which the clock is read after Lock(): then CollectBegin is only the     *)
(* call of Collect (no shared state touched).                              *)
(* A negative Counter.Add panics in client_golang ("counter cannot         *)
(* decrease in value"); nothing recovers it in a scrape: `crashed`.        *)
(*                                                                         *)
(* Property layer (C17), over what a scrape shows + the history of         *)
(* tunnel opens/closes alone (ghost `ideal`, advanced only by Tick from    *)
(* the set of authenticated-and-open tunnels in `conn`):                   *)
(*   NonNegativeIncrement   no counter increment is negative               *)
(*   InWindowKey/Loc        the value shown by a scrape equals the ideal   *)
(*                          union-of-open-periods per (client IP, key),    *)
(*                          summed over IPs, at some instant of the scrape *)
(*                          call (exactly equal when nothing ran inside    *)
(*                          the call)                                      *)
(*   LocSumEqKeySum         sum of per-location = sum of per-key           *)
(*   Conservation           reported + pending = ideal (inductive form:    *)
(*                          nothing lost / double counted across scrapes)  *)
(*   RefCountMatches        connCount = number of open authenticated       *)
(*                          tunnels of that (ip,key): unauthenticated      *)
(*                          connections contribute nothing                 *)
(* IPs, Keys, Locs are 1..n (integers) so behaviours/traces are plain JSON.*)
(***************************************************************************)
EXTENDS Integers, Sequences, FiniteSets, TLC

CONSTANTS NI, NK, NL,       \* number of client IPs, access keys, locations
          MaxConn,          \* bound on connections/associations per behaviour
          MaxClock,         \* bound on the logical clock
          TickSet,          \* clock increments
          NS,               \* number of concurrent scrapers
          MaxOps,           \* bound on steps per behaviour; 0 = unbounded (state space finite anyway)
          ClockUnderLock,   \* FALSE: code as it is (now() before Lock);  TRUE: clock read under the lock
          Interleave,       \* FALSE: nothing runs between CollectBegin and CollectLocked (sequential histories)
          WithTraffic,      \* TRUE: Probe/Packet steps (no tunnel-time effect) are generated too
          WithUnknownStop,  \* TRUE: a closed association may call RemoveNatEntry a second time (unknown-client branch)
          Forms,            \* representations of a client address the callers may hand over: 1 = 16-byte net.TCPAddr/UDPAddr
                            \* (peer of a dual-stack socket), 2 = 4-byte form (peer of an IPv4 socket), 3 = string-backed
                            \* net.Addr.  The client's IDENTITY is the IP: the form only appears in the history `tr`.
          LocMaps           \* set of IP -> location maps a behaviour may start with (AllLocMaps / CanonLocMaps)

IPs == 1..NI
Keys == 1..NK
Locs == 1..NL
Scrapers == 1..NS
Conns == 1..MaxConn
Pairs == IPs \X Keys
AllLocMaps   == [IPs -> Locs]
CanonLocMaps == {m \in [IPs -> Locs] : m[1] = 1}     \* location names are interchangeable

VARIABLES clock,
          conn, nconn,            \* connection table (what the callers of the metrics API hold)
          active,                 \* tunnelTimeMetrics.activeClients  (cnt = 0: not in the map)
          repKey, repLoc,         \* tunnelTimePerKey / tunnelTimePerLocation counter values
          sc,                     \* per scraper: pc, tNow local of Collect, ghost snapshot of ideal at the call
          crashed,                \* a Counter.Add(negative) panicked
          locmap,                 \* IP -> location label tuple (ipinfo database answer), fixed per behaviour
          ideal,                  \* ghost: per (ip,key) total time with >= 1 authenticated tunnel open
          last,                   \* observation: what the scrape that just completed showed (+ its window)
          nops, tr                \* bound / behaviour history (hidden by VIEW)

mech  == <<clock, conn, nconn, active, repKey, repLoc, sc, crashed, locmap>>
vars  == <<mech, ideal, last, nops, tr>>

RECURSIVE SumF(_, _)
SumF(f, S) == IF S = {} THEN 0 ELSE LET x == CHOOSE y \in S : TRUE IN f[x] + SumF(f, S \ {x})

NoClient == [cnt |-> 0, start |-> 0, loc |-> 1]
NoConn   == [ip |-> 0, key |-> 0, st |-> "none"]
ZeroK == [k \in Keys |-> 0]
ZeroL == [x \in Locs |-> 0]
NoScrape == [valid |-> FALSE, key |-> ZeroK, loc |-> ZeroL, loK |-> ZeroK, hiK |-> ZeroK, loL |-> ZeroL, hiL |-> ZeroL]
IdleScraper == [pc |-> "idle", tnow |-> 0, loK |-> ZeroK, loL |-> ZeroL]

(* ---- ghost: ideal accounting from the history of tunnel opens/closes alone ---- *)
\* tunnels = authenticated TCP connections and UDP associations that are open
OpenTunnels(p) == {c \in Conns : conn[c].st \in {"authed", "nat"} /\ conn[c].ip = p[1] /\ conn[c].key = p[2]}
IdealKey(id) == [k \in Keys |-> SumF([i \in IPs |-> id[<<i, k>>]], IPs)]
IdealLoc(id) == [x \in Locs |-> SumF([p \in Pairs |-> IF locmap[p[1]] = x THEN id[p] ELSE 0], Pairs)]

Init == /\ clock = 0
        /\ conn = [c \in Conns |-> NoConn] /\ nconn = 0
        /\ active = [p \in Pairs |-> NoClient]
        /\ repKey = ZeroK /\ repLoc = ZeroL
        /\ sc = [s \in Scrapers |-> IdleScraper]
        /\ crashed = FALSE
        /\ locmap \in LocMaps
        /\ ideal = [p \in Pairs |-> 0]
        /\ last = NoScrape
        /\ nops = 0
        /\ tr = << [a |-> "Init", locmap |-> locmap, underlock |-> ClockUnderLock] >>

(* ---- mechanism: the two critical sections of start/stop ---- *)
\* metrics.go:446-456  (now() is read under the lock here)
StartConn(p) ==
    /\ active' = [active EXCEPT ![p] =
                    IF @.cnt = 0 THEN [cnt |-> 1, start |-> clock, loc |-> locmap[p[1]]]
                                 ELSE [@ EXCEPT !.cnt = @ + 1]]
    /\ UNCHANGED <<repKey, repLoc>>

\* metrics.go:459-472  (unknown client: warning only; last close: report now()-start and delete)
StopConn(p) ==
    IF active[p].cnt = 0 THEN UNCHANGED <<active, repKey, repLoc>>
    ELSE IF active[p].cnt > 1 THEN /\ active' = [active EXCEPT ![p].cnt = @ - 1]
                                   /\ UNCHANGED <<repKey, repLoc>>
    ELSE LET d == clock - active[p].start IN
         /\ repKey' = [repKey EXCEPT ![p[2]] = @ + d]
         /\ repLoc' = [repLoc EXCEPT ![active[p].loc] = @ + d]
         /\ active' = [active EXCEPT ![p] = NoClient]

Quiet == \A s \in Scrapers : sc[s].pc = "idle"
MayRun == ~crashed /\ (Interleave \/ Quiet)

\* ---- callers of the metrics API (Core = without bound/history bookkeeping; reused by TunnelTimeTrace) ----
\* metrics.go:534-538, 109-118: a TCP connection is accepted; not a tunnel yet
OpenCore(c, ip) == /\ conn[c].st = "none"
                   /\ conn' = [conn EXCEPT ![c] = [ip |-> ip, key |-> 0, st |-> "open"]]
                   /\ nconn' = nconn + 1
                   /\ UNCHANGED <<clock, active, repKey, repLoc, sc, crashed, locmap, ideal>>
\* metrics.go:120-126
AuthCore(c, k) == /\ conn[c].st = "open"
                  /\ conn' = [conn EXCEPT ![c].key = k, ![c].st = "authed"]
                  /\ StartConn(<<conn[c].ip, k>>)
                  /\ UNCHANGED <<clock, nconn, sc, crashed, locmap, ideal>>
\* metrics.go:128-140: only authenticated connections stop a tunnel
CloseCore(c) == /\ conn[c].st \in {"open", "authed"}
                /\ conn' = [conn EXCEPT ![c] = [ip |-> 0, key |-> 0, st |-> "closed"]]
                /\ IF conn[c].st = "authed" THEN StopConn(<<conn[c].ip, conn[c].key>>)
                                            ELSE UNCHANGED <<active, repKey, repLoc>>
                /\ UNCHANGED <<clock, nconn, sc, crashed, locmap, ideal>>
\* metrics.go:540-543, 255-260
NatAddCore(c, ip, k) == /\ conn[c].st = "none"
                        /\ conn' = [conn EXCEPT ![c] = [ip |-> ip, key |-> k, st |-> "nat"]]
                        /\ nconn' = nconn + 1
                        /\ StartConn(<<ip, k>>)
                        /\ UNCHANGED <<clock, sc, crashed, locmap, ideal>>
\* metrics.go:278-285
NatRemoveCore(c) == /\ conn[c].st = "nat"
                    /\ conn' = [conn EXCEPT ![c] = IF WithUnknownStop THEN [@ EXCEPT !.st = "closed"]
                                                  ELSE [ip |-> 0, key |-> 0, st |-> "closed"]]
                    /\ StopConn(<<conn[c].ip, conn[c].key>>)
                    /\ UNCHANGED <<clock, nconn, sc, crashed, locmap, ideal>>
\* a second RemoveNatEntry on an association whose client has no tunnel left: stopConnection's unknown-client branch
RemoveAgainCore(c) == /\ conn[c].st = "closed" /\ conn[c].key # 0
                      /\ OpenTunnels(<<conn[c].ip, conn[c].key>>) = {}
                      /\ conn' = [conn EXCEPT ![c] = [ip |-> 0, key |-> 0, st |-> "closed"]]
                      /\ StopConn(<<conn[c].ip, conn[c].key>>)
                      /\ UNCHANGED <<clock, nconn, sc, crashed, locmap, ideal>>
\* AddProbe on an unauthenticated TCP connection / AddPacketFrom* on an association: no tunnel-time effect
ProbeCore(c)  == conn[c].st = "open" /\ UNCHANGED <<mech, ideal>>
PacketCore(c) == conn[c].st = "nat"  /\ UNCHANGED <<mech, ideal>>

\* the clock advances; the ghost account grows for every (ip,key) with at least one open tunnel
TickCore(d) == /\ clock' = clock + d
               /\ ideal' = [p \in Pairs |-> IF OpenTunnels(p) # {} THEN ideal[p] + d ELSE ideal[p]]
               /\ UNCHANGED <<conn, nconn, active, repKey, repLoc, sc, crashed, locmap>>

\* metrics.go:425  `tNow := now()` (as is) / the call of Collect (clock under lock)
CollectBeginCore(s) ==
    /\ sc[s].pc = "idle"
    /\ sc' = [sc EXCEPT ![s] = [pc |-> "called", tnow |-> IF ClockUnderLock THEN 0 ELSE clock,
                                loK |-> IdealKey(ideal), loL |-> IdealLoc(ideal)]]
    /\ UNCHANGED <<clock, conn, nconn, active, repKey, repLoc, crashed, locmap, ideal>>

\* metrics.go:426-430 + 436-443 for every active client, under mu
ActiveSet == {p \in Pairs : active[p].cnt > 0}
CollectLockedCore(s) ==
    /\ sc[s].pc = "called"
    /\ LET t   == IF ClockUnderLock THEN clock ELSE sc[s].tnow
           neg == \E p \in ActiveSet : t < active[p].start IN
         IF neg
         THEN /\ crashed' = TRUE                         \* Counter.Add(negative) panics
              /\ UNCHANGED <<active, repKey, repLoc>>
         ELSE /\ crashed' = crashed
              /\ repKey' = [k \in Keys |-> repKey[k] +
                              SumF([p \in Pairs |-> IF p \in ActiveSet /\ p[2] = k THEN t - active[p].start ELSE 0], Pairs)]
              /\ repLoc' = [x \in Locs |-> repLoc[x] +
                              SumF([p \in Pairs |-> IF p \in ActiveSet /\ active[p].loc = x THEN t - active[p].start ELSE 0], Pairs)]
              /\ active' = [p \in Pairs |-> IF p \in ActiveSet THEN [active[p] EXCEPT !.start = t] ELSE active[p]]
    /\ sc' = [sc EXCEPT ![s] = IdleScraper]
    /\ UNCHANGED <<clock, conn, nconn, locmap, ideal>>

\* what the scrape shows (tunnelTimePerKey.Collect / PerLocation.Collect right after the locked part)
Shown(s) == [valid |-> ~crashed', key |-> repKey', loc |-> repLoc',
             loK |-> sc[s].loK, hiK |-> IdealKey(ideal), loL |-> sc[s].loL, hiL |-> IdealLoc(ideal)]

(* ---- bounded / history-recording actions ---- *)
Bounded == MaxOps = 0 \/ nops < MaxOps
Step(e) == /\ Bounded /\ nops' = nops + 1 /\ tr' = Append(tr, e)
Other   == last' = NoScrape

Open(ip)     == MayRun /\ nconn < MaxConn /\ OpenCore(nconn + 1, ip) /\ Other
                /\ \E f \in Forms : Step([a |-> "Open", c |-> nconn + 1, ip |-> ip, f |-> f])
Auth(c, k)   == MayRun /\ AuthCore(c, k) /\ Other /\ Step([a |-> "Auth", c |-> c, key |-> k])
Close(c)     == MayRun /\ CloseCore(c) /\ Other /\ Step([a |-> "Close", c |-> c])
NatAdd(ip,k) == MayRun /\ nconn < MaxConn /\ NatAddCore(nconn + 1, ip, k) /\ Other
                /\ \E f \in Forms : Step([a |-> "NatAdd", c |-> nconn + 1, ip |-> ip, key |-> k, f |-> f])
NatRemove(c) == MayRun /\ NatRemoveCore(c) /\ Other /\ Step([a |-> "NatRemove", c |-> c])
RemoveAgain(c) == MayRun /\ RemoveAgainCore(c) /\ Other /\ Step([a |-> "RemoveAgain", c |-> c])
Probe(c)     == MayRun /\ WithTraffic /\ ProbeCore(c) /\ Other /\ Step([a |-> "Probe", c |-> c])
Packet(c)    == MayRun /\ WithTraffic /\ PacketCore(c) /\ Other /\ Step([a |-> "Packet", c |-> c])
Tick(d)      == MayRun /\ clock + d <= MaxClock /\ TickCore(d) /\ Other /\ Step([a |-> "Tick", d |-> d])
CollectBegin(s)  == MayRun /\ CollectBeginCore(s) /\ Other /\ Step([a |-> "CollectBegin", s |-> s])
CollectLocked(s) == /\ ~crashed /\ CollectLockedCore(s)
                    /\ last' = Shown(s)
                    /\ Step([a |-> "CollectLocked", s |-> s, crash |-> crashed',
                             rk |-> repKey', rl |-> repLoc'])

Next == \/ \E ip \in IPs : Open(ip)
        \/ \E c \in Conns, k \in Keys : Auth(c, k)
        \/ \E c \in Conns : Close(c)
        \/ \E c \in Conns : NatRemove(c)
        \/ \E c \in Conns : RemoveAgain(c)
        \/ \E c \in Conns : Probe(c)
        \/ \E c \in Conns : Packet(c)
        \/ \E ip \in IPs, k \in Keys : NatAdd(ip, k)
        \/ \E d \in TickSet : Tick(d)
        \/ \E s \in Scrapers : CollectBegin(s)
        \/ \E s \in Scrapers : CollectLocked(s)

Spec == Init /\ [][Next]_vars

(* ---- properties ---- *)
TypeOK == /\ clock \in 0..MaxClock /\ nconn \in 0..MaxConn
          /\ \A c \in Conns : conn[c].st \in {"none", "open", "authed", "nat", "closed"}
          /\ \A p \in Pairs : active[p].cnt \in 0..MaxConn /\ active[p].start \in 0..MaxClock
          /\ crashed \in BOOLEAN

\* C17 "every counter increment >= 0" (a negative one is a panic inside the scrape)
NonNegativeIncrement == ~crashed
Monotone == [][\A k \in Keys : repKey'[k] >= repKey[k]]_vars

\* C17 main clause, on what a scrape shows: ideal at the call <= shown <= ideal at the return
InWindowKey == last.valid => \A k \in Keys : last.loK[k] <= last.key[k] /\ last.key[k] <= last.hiK[k]
InWindowLoc == last.valid => \A x \in Locs : last.loL[x] <= last.loc[x] /\ last.loc[x] <= last.hiL[x]
\* with the clock read under the lock the scrape shows exactly the ideal at the instant of the lock
ExactAtLock == (ClockUnderLock /\ last.valid) => (last.key = last.hiK /\ last.loc = last.hiL)
\* sequential histories (nothing inside the scrape call): the scrape shows exactly the ideal, also for the code as it is
SeqExact == (last.valid /\ ~Interleave) => (last.key = last.hiK /\ last.loc = last.hiL /\ last.loK = last.hiK)
\* C17 "the per-location totals equal the per-key totals"
LocSumEqKeySum == SumF(repLoc, Locs) = SumF(repKey, Keys)
\* C17 "neither lost nor counted twice across scrapes": reported + pending = ideal
Pending(k) == SumF([p \in Pairs |-> IF active[p].cnt > 0 /\ p[2] = k THEN clock - active[p].start ELSE 0], Pairs)
Conservation == ~crashed => \A k \in Keys : repKey[k] + Pending(k) = IdealKey(ideal)[k]
\* C17 "unauthenticated connections contribute nothing", "overlapping tunnels of one client are not double counted":
\* one activeClients entry per (ip,key), reference-counting exactly the authenticated open tunnels
RefCountMatches == \A p \in Pairs : active[p].cnt = Cardinality(OpenTunnels(p))
StartNotInFuture == \A p \in Pairs : active[p].start <= clock

\* vacuity witnesses (must be VIOLATED by TLC when listed as invariants)
\* a scrape shows >= 2 units for some key while some client has two overlapping tunnels open
Witness == ~(last.valid /\ (\E k \in Keys : last.key[k] >= 2) /\ (\E p \in Pairs : active[p].cnt >= 2))

View == <<mech, ideal, last>>
===============================================================================
