--------------------------- MODULE LocationLabelRace ---------------------------
(***************************************************************************)
(* C20 / C17: a scrape that is CONCURRENT with the first tunnel of a       *)
(* client (prometheus/metrics.go tunnelTimeMetrics.startConnection vs      *)
(* Collect).                                                               *)
(*                                                                         *)
(* Mechanism: "register the active client + look its location up" is ONE   *)
(* critical section of tunnelTimeMetrics.mu (startConnection :452-462).    *)
(* It is split here into Begin(i) (the caller is inside startConnection,   *)
(* the database lookup is in progress) and Release(i) (the lookup answers, *)
(* the entry carries its final label, the lock is released), so that the   *)
(* scheduler can put a scrape in between:                                  *)
(*   ScrapeBegin   a Gather()/Collect starts in another goroutine          *)
(*   Observe       its linearization point: Collect holds the lock and     *)
(*                 reports every entry it finds under the entry's label    *)
(*   ScrapeEnd     the scrape returns what it exported                     *)
(* AtomicRegister = TRUE is the code as REQUIRED: Observe cannot happen    *)
(* while a registration is in progress (the scrape blocks, or - for an     *)
(* implementation that looks up before inserting - does not see the        *)
(* client).  AtomicRegister = FALSE is the interleaving the code must      *)
(* exclude: the entry is visible with an UNSET label while the lookup is   *)
(* running (MC_LocationLabelRaceNeg.cfg: pinned negative control, TLC must *)
(* find NoUnsetLocation violated).                                         *)
(*                                                                         *)
(* Property layer (over `seen`, the (client, label stamp) pairs that any   *)
(* scrape or stopConnection has exported):                                 *)
(*   NoUnsetLocation       no tunnel-time series carries the label of an   *)
(*                         entry whose lookup has not answered (the empty  *)
(*                         location is reserved for "lookup disabled")     *)
(*   OneLocationPerClient  every client is reported under exactly one      *)
(*                         location (the database behaviour is fixed here) *)
(*   ScrapeSeesFinal       whatever a scrape sees of a client is its final *)
(*                         label                                           *)
(* The behaviour history `tr` tells the driver the schedule and, for every *)
(* scrape, the stamps whose labels may (ScrapeEnd: subset) / must (Scrape: *)
(* eq) be the location labels of tunnel_time_seconds_per_location.         *)
(***************************************************************************)
EXTENDS Integers, Sequences, FiniteSets, TLC

CONSTANTS NI, MaxOps,
          DbEnabled,         \* FALSE: NewServiceMetrics(nil) - every stamp is "disabled"
          AtomicRegister     \* TRUE: registration + lookup are one critical section (required)

IPs == 1..NI
Modes == {"hit", "nocountry", "error"}

VARIABLES dbm,      \* IP -> behaviour of the database for that IP (fixed per behaviour)
          ent,      \* IP -> [st, db]: activeClients entry of (ip, key 1) and the stamp of its label
          ever,     \* IPs whose registration has begun at least once (their series may exist for ever)
          scr,      \* concurrent scrape: "idle" | "running" | "observed"
          snap,     \* what the concurrent scrape saw at its linearization point
          seen,     \* (ip, stamp) pairs exported so far - the observable
          nops, tr
vars == <<dbm, ent, ever, scr, snap, seen, nops, tr>>

Cur(i) == IF DbEnabled THEN dbm[i] ELSE "disabled"
St(i, d) == [ip |-> i, db |-> d]
Looking == {i \in IPs : ent[i].st = "looking"}
Visible == {i \in IPs : ent[i].st = "active" \/ (~AtomicRegister /\ ent[i].st = "looking")}
Quiet == Looking = {} /\ scr = "idle"

Init == /\ dbm \in [IPs -> Modes]
        /\ ent = [i \in IPs |-> [st |-> "none", db |-> "unset"]]
        /\ ever = {} /\ scr = "idle" /\ snap = {} /\ seen = {} /\ nops = 0
        /\ tr = << [a |-> "Init", dbm |-> dbm, enabled |-> DbEnabled] >>

Step(e) == nops' = nops + 1 /\ tr' = Append(tr, e)

\* AddAuthenticated -> startConnection of a client without entry: the lookup starts (one blocked lookup at a time)
Begin(i) == /\ nops < MaxOps /\ ent[i].st = "none" /\ Looking = {}
            /\ ent' = [ent EXCEPT ![i] = [st |-> "looking", db |-> "unset"]]
            /\ ever' = ever \cup {i}
            /\ Step([a |-> "Begin", ip |-> i])
            /\ UNCHANGED <<dbm, scr, snap, seen>>

\* the database answers; the entry has its final label
Release(i) == /\ ent[i].st = "looking"
              /\ ent' = [ent EXCEPT ![i] = [st |-> "active", db |-> Cur(i)]]
              /\ Step([a |-> "Release", ip |-> i])
              /\ UNCHANGED <<dbm, ever, scr, snap, seen>>

\* a scrape is started while a first registration is in progress
ScrapeBegin == /\ nops < MaxOps /\ scr = "idle" /\ Looking # {}
               /\ scr' = "running"
               /\ Step([a |-> "ScrapeBegin"])
               /\ UNCHANGED <<dbm, ent, ever, snap, seen>>

\* linearization point of Collect (not a step of the schedule: the driver cannot see it)
Observe == /\ scr = "running"
           /\ AtomicRegister => Looking = {}
           /\ snap' = {St(i, ent[i].db) : i \in Visible}
           /\ seen' = seen \cup snap'
           /\ scr' = "observed"
           /\ UNCHANGED <<dbm, ent, ever, nops, tr>>

\* the driver waits for the scrape to return: no lookup may be blocked then (it would hold the lock)
ScrapeEnd == /\ scr = "observed" /\ Looking = {}
             /\ scr' = "idle"
             /\ Step([a |-> "ScrapeEnd", mode |-> "subset", want |-> {St(i, Cur(i)) : i \in ever}])
             /\ UNCHANGED <<dbm, ent, ever, snap, seen>>

\* clock +1 and a sequential scrape with nothing in progress: every client ever registered has been reported
Scrape == /\ nops < MaxOps /\ Quiet /\ ever # {}
          /\ seen' = seen \cup {St(i, ent[i].db) : i \in Visible}
          /\ Step([a |-> "Scrape", mode |-> "eq", want |-> {St(i, Cur(i)) : i \in ever}])
          /\ UNCHANGED <<dbm, ent, ever, scr, snap>>

\* AddClosed -> stopConnection: reports under the entry's label and removes the entry (a later Begin is a first tunnel again)
Close(i) == /\ nops < MaxOps /\ ent[i].st = "active" /\ Quiet   \* the driver calls it synchronously: nothing may hold the lock
            /\ seen' = seen \cup {St(i, ent[i].db)}
            /\ ent' = [ent EXCEPT ![i] = [st |-> "none", db |-> "unset"]]
            /\ Step([a |-> "Close", ip |-> i])
            /\ UNCHANGED <<dbm, ever, scr, snap>>

Next == \/ \E i \in IPs : Begin(i) \/ Release(i) \/ Close(i)
        \/ ScrapeBegin \/ Observe \/ ScrapeEnd \/ Scrape
Spec == Init /\ [][Next]_vars

TypeOK == /\ \A i \in IPs : ent[i].st \in {"none", "looking", "active"}
          /\ scr \in {"idle", "running", "observed"}
\* ---- property layer ----
NoUnsetLocation == \A x \in seen : x.db # "unset" /\ (x.db = "disabled" <=> ~DbEnabled)
OneLocationPerClient == \A x, y \in seen : x.ip = y.ip => x.db = y.db
ScrapeSeesFinal == \A x \in snap : x.db = Cur(x.ip)
View == <<dbm, ent, ever, scr, snap, seen>>
===============================================================================
