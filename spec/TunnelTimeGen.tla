----------------------------- MODULE TunnelTimeGen -----------------------------
(* Behaviour generation (spec -> code).
   -simulate : every behaviour ends with one Finish step (budget used up, or the model says the scrape panicked) that
               prints its history as JSON (DumpInv).
   exhaustive on the as-is model (MC_TunnelTimeAsIs.cfg): CrashDump prints the history of the SHORTEST behaviour that
               ends in a negative counter increment and stops TLC; the check then replays it on the real collectors. *)
EXTENDS TunnelTime, Json
VARIABLE done
GenInit == Init /\ done = FALSE
Finish  == /\ ~done /\ (crashed \/ (MaxOps > 0 /\ nops >= MaxOps))
           /\ done' = TRUE /\ UNCHANGED vars
GenNext == (~done /\ Next /\ UNCHANGED done) \/ Finish
GenSpec == GenInit /\ [][GenNext]_<<vars, done>>
DumpInv   == done => PrintT(<<"BEH", ToJson(tr)>>)
CrashDump == crashed => (PrintT(<<"BEH", ToJson(tr)>>) /\ FALSE)
GenView == <<View, done>>
===============================================================================
