SPECIFICATION GenSpec
CONSTANTS
  NI = 5
  MaxOps = 10
  DbEnabled = TRUE
  AtomicRegister = TRUE
INVARIANTS DumpInv TypeOK NoUnsetLocation OneLocationPerClient ScrapeSeesFinal
CHECK_DEADLOCK FALSE
