\* C15 exhaustive: every outcome class (all openers x ok/refuse/deny targets x corrupt chunks x target reset)
SPECIFICATION Spec
CONSTANTS
  Conns = {1}
  HsKinds = {"valid", "garbage", "replayC", "replayS"}
  TgtKinds = {"ok", "refuse", "deny"}
  MaxC = 2
  MaxT = 2
  MaxTok = 6
  AllowBad = TRUE
  AllowSplit = FALSE
  AllowRst = TRUE
  AllowTClose = TRUE
  AllowCRst = TRUE
  AllowPause = FALSE
  Planned = FALSE
  Timeout = 2
  MaxNow = 3
  DrainMode = "raw"
  Strict = FALSE
  WithServe = FALSE
  Hist = FALSE
  SlackEarly = 0
  SlackLate = 0
  SlackSched = 0
INVARIANTS Inv_C15 C15_CountersTrackDelivery
INVARIANTS TypeOK Inv_C02 C02_Independent C02_Buf50First
INVARIANTS Inv_C06 Inv_C06Drain C06_NotStuckAfterDeadline
INVARIANTS C18_NoLeak C18_AllReturned C18_ServeWaits C18_SocketsFollowHandler
VIEW View
