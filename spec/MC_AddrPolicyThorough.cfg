\* exhaustive, thorough tier: as MC_AddrPolicy.cfg but every boundary address may open a UDP association of <= 3 datagrams
SPECIFICATION Spec
CONSTANTS
  Modes = {"tcp", "udp", "dec"}
  LogLevels = {"info", "debug"}
  MaxPkts = 3
  ValidateKnown = TRUE
  TcpDests <- McTcpDests
  UdpDests <- McUdpDests
  UdpFirst <- McUdpFirst
INVARIANTS TypeOK NoPrivateContact TableAgrees TcpStatusClass UdpStatusClass UdpPublicOpens TcpOutcomeAgrees UdpOutcomeAgrees
VIEW View
CHECK_DEADLOCK FALSE
