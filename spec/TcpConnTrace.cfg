SPECIFICATION TraceSpec
CONSTANTS
  Conns = {1}
  HsKinds = {"valid"}
  TgtKinds = {"ok"}
  MaxC = 0
  MaxT = 0
  MaxTok = 0
  AllowBad = FALSE
  AllowSplit = FALSE
  AllowRst = FALSE
  AllowTClose = FALSE
  AllowCRst = FALSE
  AllowPause = FALSE
  Planned = FALSE
  Timeout = 0
  MaxNow = 0
  DrainMode = "raw"
  Strict = FALSE
  WithServe = FALSE
  Hist = FALSE
  SlackEarly = 2
  SlackLate = 1500
  SlackSched = 250
INVARIANTS Report
POSTCONDITION TraceAccepted
CHECK_DEADLOCK FALSE
