\* behaviour generation; the check rewrites ClockUnderLock / Interleave / NS / MaxOps per family
SPECIFICATION GenSpec
CONSTANTS
  NI = 3
  NK = 3
  NL = 3
  MaxConn = 8
  MaxClock = 40
  TickSet = {1, 2, 3}
  NS = 2
  MaxOps = 30
  ClockUnderLock = FALSE
  Interleave = TRUE
  WithTraffic = TRUE
  WithUnknownStop = TRUE
  Forms = {1, 2, 3}
  LocMaps <- AllLocMaps
INVARIANTS DumpInv
CHECK_DEADLOCK FALSE
