----------------------------- MODULE LocationLabel -----------------------------
(***************************************************************************)
(* ipinfo/ipinfo.go: the location label of a client address (C20, second   *)
(* sentence).                                                              *)
(*                                                                         *)
(* Mechanism layer: the decision steps of GetIPInfoFromAddr (:91-109) and  *)
(* GetIPInfoFromIP (:58-82) in the order in which the code takes them, one *)
(* action per test, for every (entry point, address class, database        *)
(* behaviour).  TLC enumerates the whole (finite) table.                   *)
(*                                                                         *)
(* Property layer: Label(cls, db) as the STATEMENT gives it, over the      *)
(* class of the address and the behaviour of the database alone:           *)
(*   XA when the address cannot be parsed; otherwise "" when lookup is     *)
(*   disabled; XL for a non-global address, database NOT consulted; XD on  *)
(*   a database error; ZZ when the database has no country; else the       *)
(*   database's answer ("CC").                                             *)
(*   DbConsulted => global /\ enabled.                                     *)
(*                                                                         *)
(* "global" is Go's net.IP.IsGlobalUnicast: everything except unspecified, *)
(* loopback, link-local unicast, multicast and IPv4 broadcast.  RFC1918 /  *)
(* ULA / CGNAT / reserved ("private" below) addresses ARE global in this   *)
(* sense and are looked up (the repository's own test                      *)
(* TestGetIPInfoFromIPLocalNetworkAddressReturnsUnknownLocation pins that);*)
(* PrivateIsGlobal = FALSE gives the stricter reading.                     *)
(* Zoned literals: the statement admits XA (net.ParseIP rejects a zone) or *)
(* XL (link-local), but the same answer for every zoned address: ZonedXA.  *)
(***************************************************************************)
EXTENDS Integers, Sequences, TLC

CONSTANTS PrivateIsGlobal,     \* TRUE: Go's IsGlobalUnicast reading
          ZonedXA              \* TRUE: a zoned literal is "cannot be parsed" (XA); FALSE: it is non-global (XL)

Entries == {"FromAddr", "FromIP"}
\* classes of what can be handed to the two entry points
AddrOnly == {"niladdr", "unsplittable", "nonip", "zoned"}          \* only expressible as a net.Addr
IPClasses == {"nilip", "loopback", "linklocal", "multicast", "unspecified", "broadcast",
              "private", "globalv4", "globalv6", "mapped"}          \* mapped = ::ffff:<global v4>
Classes == AddrOnly \cup IPClasses
DbModes == {"disabled", "hit", "nocountry", "error"}

\* ---- classification facts (what the class IS, independent of the code) ----
Unparsable(c) == c \in {"niladdr", "unsplittable", "nonip", "nilip"} \/ (c = "zoned" /\ ZonedXA)
Global(c) == c \in {"globalv4", "globalv6", "mapped"} \/ (c = "private" /\ PrivateIsGlobal)

\* ---- property layer: the statement's table ----
Label(c, d) == IF Unparsable(c) THEN "XA"
               ELSE IF d = "disabled" THEN ""
               ELSE IF ~Global(c) THEN "XL"
               ELSE IF d = "error" THEN "XD"
               ELSE IF d = "nocountry" THEN "ZZ"
               ELSE "CC"
MayConsult(c, d) == Global(c) /\ ~Unparsable(c) /\ d # "disabled"

\* ---- mechanism layer ----
VARIABLES entry, cls, db,      \* the row
          pc,                  \* where the code is
          label, consulted, err

vars == <<entry, cls, db, pc, label, consulted, err>>

Valid(e, c) == IF e = "FromIP" THEN c \in IPClasses ELSE c \in Classes \ {"nilip"}

Init == /\ entry \in Entries /\ cls \in Classes /\ db \in DbModes
        /\ Valid(entry, cls)
        /\ pc = IF entry = "FromAddr" THEN "a_nil" ELSE "i_disabled"
        /\ label = "" /\ consulted = FALSE /\ err = FALSE

Done(l, e) == pc' = "done" /\ label' = l /\ err' = e /\ UNCHANGED <<entry, cls, db, consulted>>
Goto(p)    == pc' = p /\ UNCHANGED <<entry, cls, db, label, consulted, err>>

\* ipinfo.go:93-96
ANil    == pc = "a_nil"   /\ IF cls = "niladdr" THEN Done("XA", TRUE) ELSE Goto("a_split")
\* :97-101  net.SplitHostPort
ASplit  == pc = "a_split" /\ IF cls = "unsplittable" THEN Done("XA", TRUE) ELSE Goto("a_parse")
\* :102-106 net.ParseIP (rejects host names and zoned literals)
AParse  == pc = "a_parse" /\ IF cls \in {"nonip", "zoned"} THEN Done("XA", TRUE) ELSE Goto("i_disabled")
\* :60-63   ip2info == nil
IDisabled == pc = "i_disabled" /\ IF db = "disabled" THEN Done("", FALSE) ELSE Goto("i_nil")
\* :65-68
INil    == pc = "i_nil"   /\ IF cls = "nilip" THEN Done("XA", TRUE) ELSE Goto("i_global")
\* :70-73   !ip.IsGlobalUnicast()
IGlobal == pc = "i_global" /\ IF cls \in {"loopback", "linklocal", "multicast", "unspecified", "broadcast"}
                              THEN Done("XL", FALSE) ELSE Goto("i_lookup")
\* :74-81   the database is asked; error -> XD, empty country -> ZZ
ILookup == /\ pc = "i_lookup"
           /\ consulted' = TRUE
           /\ pc' = "done"
           /\ label' = IF db = "error" THEN "XD" ELSE IF db = "nocountry" THEN "ZZ" ELSE "CC"
           /\ err' = (db = "error")
           /\ UNCHANGED <<entry, cls, db>>

Next == ANil \/ ASplit \/ AParse \/ IDisabled \/ INil \/ IGlobal \/ ILookup
Spec == Init /\ [][Next]_vars /\ WF_vars(Next)

(* ---- properties ---- *)
TypeOK == entry \in Entries /\ cls \in Classes /\ db \in DbModes /\ consulted \in BOOLEAN /\ err \in BOOLEAN
\* the one deviation of the code from the statement's order of tests that is reachable only by misuse of the API:
\* GetIPInfoFromIP(nil map, nil IP) answers "" (disabled is tested before the nil IP); no client address gets there.
Misuse == entry = "FromIP" /\ cls = "nilip" /\ db = "disabled"
LabelByClass == (pc = "done" /\ ~Misuse) => label = Label(cls, db)
DbConsultedOnlyGlobalEnabled == consulted => MayConsult(cls, db)
ConsultedWhenNeeded == (pc = "done" /\ MayConsult(cls, db)) => consulted
\* both entry points agree on every class they share
Terminates == <>(pc = "done")
===============================================================================
