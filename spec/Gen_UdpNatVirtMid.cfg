\* focused behaviours for the virtual-time natmap harness (datagram arriving inside WriteTo of a later DNS query): T = 2 units, DNS timeout = 4 units (one unit = 17 s / 4)
SPECIFICATION GenSpec
CONSTANTS
  Clients = {1, 2}
  IPOf <- GenIPOf
  Keys = {1}
  InitList <- GenInitList
  SaltSz <- GenSaltSz
  Senders = {1, 2, 3, 7, 8}
  Targets = {1, 2, 3}
  DnsPort = {2, 8}
  Allowed = {1, 2, 3}
  Unsendable = {3}
  DisarmFirst = TRUE
  Fam <- GenFam
  DgAlpha <- GenDgVirtMid
  RpAlpha <- GenRpVirtMid
  MidAlpha <- GenMidVirtMid
  Sync = TRUE
  T = 2
  DNST = 4
  Ticks = {1}
  MaxNow = 12
  MaxDg = 10
  MaxRp = 6
  MaxAssoc = 8
  Slack = 0
  Bound = 0
  ZonedPanics = FALSE
  GenLen = 10
INVARIANTS DumpInv
CHECK_DEADLOCK FALSE
