\* system-level C07 scenarios: a fixed replay history N = 3, handshakes 1..5, "Resize(3)" steps become config reloads
SPECIFICATION GenSpec
CONSTANTS
  Hashes = {1, 2, 3, 4, 5}
  Caps = {3}
  MaxOps = 14
INVARIANTS DumpInv
CHECK_DEADLOCK FALSE
