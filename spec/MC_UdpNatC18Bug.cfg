\* model of the tree in which a zoned reply source crashes timedCopy: NoCrash must FAIL (documents the defect; reproduced on the code by c18_udp)
SPECIFICATION Spec
CONSTANTS
  Clients = {1, 2}
  IPOf <- MCIPOf
  Keys = {1, 2}
  InitList <- MCInitList
  SaltSz <- MCSaltSz
  Senders = {1, 2, 3, 4, 5}
  Targets = {1, 2, 3}
  DnsPort = {2}
  Allowed = {1, 2}
  Unsendable = {}
  DisarmFirst = TRUE
  Fam <- MCFam
  DgAlpha <- DgC16
  RpAlpha <- RpC16
  MidAlpha <- NoMid
  Sync = FALSE
  T = 2
  DNST = 3
  Ticks = {3}
  MaxNow = 3
  MaxDg = 1
  MaxRp = 1
  MaxAssoc = 1
  Slack = 0
  Bound = 0
  ZonedPanics = TRUE
INVARIANTS NoCrash
VIEW View
CHECK_DEADLOCK FALSE
