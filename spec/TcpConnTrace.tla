----------------------------- MODULE TcpConnTrace -----------------------------
(***************************************************************************)
(* Code -> spec, verdict pass.  Every line of trace.ndjson is ONE          *)
(* connection of one run of the real code (harness/cmd/tcpconn, or the     *)
(* virtual-time harness): the script the peers performed (hs, tk, csent,   *)
(* tsent, cfin, tfin, trst), what each observer saw (tlog, clog, mlog,     *)
(* dials, wire byte counts, times), and `snaps`: the lengths of the        *)
(* observers' logs just before each environment action (read by the        *)
(* goroutine that performs the environment actions, so they are sound      *)
(* "already happened before" facts).                                       *)
(*                                                                         *)
(* TLC evaluates the property layer of TcpConn.tla - the SAME operators    *)
(* that are invariants of the model - on the final record (PropsFinal) and *)
(* on every snapshot (PropsAny), one line per step, and prints             *)
(*   <<"CASE", line, failing predicates, snapshot index (0 = final)>>      *)
(* for each line with a failing predicate, then <<"RESULT", lines, bad>>.  *)
(* Conformance with the mechanism layer is checked by TcpConnTraceM.       *)
(***************************************************************************)
EXTENDS TcpConn, Json
ToSet(q) == {q[i] : i \in 1..Len(q)}

Trace == ndJsonDeserialize("trace.ndjson")

VARIABLES l, nbad
tvars == <<l, nbad>>

SRec(cs, x) == [hs |-> cs.hs, tk |-> cs.tk, cfin |-> x.cfin, tfin |-> x.tfin, trst |-> x.trst, tcl |-> x.tcl, crst |-> x.crst]
ORecFinal(cs) ==
  [ csent |-> cs.csent, tsent |-> cs.tsent, tlog |-> cs.tlog, clog |-> cs.clog, mlog |-> cs.mlog, dials |-> cs.dials,
    acceptAt |-> cs.acceptAt, closeAt |-> cs.closeAt, cfinAt |-> cs.cfinAt, preDoneAt |-> cs.preDoneAt, addrDoneAt |-> cs.addrDoneAt, stalls |-> ToSet(cs.stallKinds), handlerDone |-> cs.handled, cancelled |-> cs.cancelled,
    lastSendAt |-> cs.lastSendAt, tfinPolite |-> cs.tfinPolite, drain |-> cs.drain, timeout |-> cs.timeoutMs,
    afterClose |-> cs.afterClose,
    wire |-> [cs |-> cs.wcs, tr |-> cs.wtr, ts |-> cs.wts, cr |-> cs.wcr, cpl |-> cs.wcpl, pt |-> cs.wpt, pc |-> cs.wpc] ]
ORecSnap(cs, sn) ==
  [ csent |-> SubSeq(cs.csent, 1, sn.ncs), tsent |-> sn.nts,
    tlog |-> SubSeq(cs.tlog, 1, sn.tl), clog |-> SubSeq(cs.clog, 1, sn.cl), mlog |-> SubSeq(cs.mlog, 1, sn.ml),
    dials |-> sn.dl, acceptAt |-> IF sn.ml > 0 THEN cs.acceptAt ELSE -1, closeAt |-> sn.closeAt, cfinAt |-> sn.cfinAt,
    preDoneAt |-> sn.preDoneAt, addrDoneAt |-> sn.addrDoneAt, stalls |-> ToSet(sn.stallKinds), handlerDone |-> FALSE, cancelled |-> sn.cancelled, lastSendAt |-> sn.lastSendAt, tfinPolite |-> sn.tfinPolite, drain |-> "",
    timeout |-> cs.timeoutMs, afterClose |-> sn.afterClose,
    wire |-> [cs |-> sn.wcs, tr |-> sn.wtr, ts |-> sn.wts, cr |-> sn.wcr, cpl |-> sn.wcpl, pt |-> 0, pc |-> 0] ]

FinalFailing(cs) == Failing(PropsFinal, SRec(cs, cs), ORecFinal(cs))
SnapFailing(cs, i) == LET sn == cs.snaps[i] IN Failing(PropsAny, SRec(cs, sn), ORecSnap(cs, sn))
BadSnaps(cs) == {i \in 1..Len(cs.snaps) : SnapFailing(cs, i) # {}}
FirstBadSnap(cs) == IF BadSnaps(cs) = {} THEN 0 ELSE CHOOSE i \in BadSnaps(cs) : \A j \in BadSnaps(cs) : i <= j

TraceInit == /\ st = [c \in Conns |-> InitConn("valid", "ok", -1, -1)] /\ ob = [c \in Conns |-> InitOb]
             /\ now = 0 /\ lst = "open" /\ srv = "accept" /\ tr = <<>>
             /\ l = 1 /\ nbad = 0

Judge == /\ l <= Len(Trace)
         /\ LET cs == Trace[l]
                fs == FirstBadSnap(cs)
                ff == FinalFailing(cs)
                bad == fs # 0 \/ ff # {} IN
            /\ (bad => PrintT(<<"CASE", l, IF fs # 0 THEN SnapFailing(cs, fs) ELSE ff, fs>>))
            /\ nbad' = IF bad THEN nbad + 1 ELSE nbad
         /\ l' = l + 1
         /\ UNCHANGED vars

TraceSpec == TraceInit /\ [][Judge]_<<vars, tvars>>
Report == (l = Len(Trace) + 1) => PrintT(<<"RESULT", l - 1, nbad>>)
TraceAccepted == TLCGet("stats").diameter - 1 = Len(Trace)
===============================================================================
