\* liveness under fairness, no state constraint: expiry happens, shutdown reclaims everything
SPECIFICATION LiveSpec
CONSTANTS
  Clients = {1, 2}
  IPOf <- MCIPOf
  Keys = {1, 2}
  InitList <- MCInitList
  SaltSz <- MCSaltSz
  Senders = {1, 2, 3, 6}
  Targets = {1, 2, 3}
  DnsPort = {2, 6}
  Allowed = {1, 2, 3}
  Unsendable = {3}
  DisarmFirst = TRUE
  Fam <- MCFam
  DgAlpha <- DgC14
  RpAlpha <- RpC14
  MidAlpha <- NoMid
  Sync = FALSE
  T = 2
  DNST = 3
  Ticks = {1, 2}
  MaxNow = 3
  MaxDg = 2
  MaxRp = 1
  MaxAssoc = 2
  Slack = 0
  Bound = 0
  ZonedPanics = FALSE
INVARIANTS TypeOK
PROPERTIES ExpireHappens ShutdownReclaims
CHECK_DEADLOCK FALSE
