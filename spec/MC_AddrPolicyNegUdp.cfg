\* NEGATIVE configuration (anti-vacuity): only the first datagram of an association is validated (udp.go:200 skipped).
\* TLC must report a violation of NoPrivateContact.
SPECIFICATION Spec
CONSTANTS
  Modes = {"udp"}
  LogLevels = {"info"}
  MaxPkts = 3
  ValidateKnown = FALSE
  TcpDests <- BehTcpDests
  UdpDests <- BehUdpDests
  UdpFirst <- BehUdpDests
INVARIANTS NoPrivateContact
VIEW View
CHECK_DEADLOCK FALSE
