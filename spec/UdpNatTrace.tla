----------------------------- MODULE UdpNatTrace -----------------------------
(***************************************************************************)
(* Code -> spec.  Evaluates the PROPERTY LAYER of UdpNat on observations   *)
(* recorded from the real code (harness/cmd/udpnat on real sockets, and    *)
(* the in-package natmap harness under virtual time).  The drivers are     *)
(* step-synchronous: one environment step, then the real code settles;     *)
(* each observer's events are logged in that observer's own order, and the *)
(* properties are evaluated only at the end of a step ("Clock" line), so   *)
(* no order between different observers is ever guessed.                   *)
(*                                                                         *)
(* Lines (NDJSON):                                                         *)
(*  {"ev":"Reset"}                               a new behaviour           *)
(*  {"ev":"CSend",id,c,k,hdr,dst,sz,wire,la,t}   a client sent a datagram  *)
(*  {"ev":"SSend",id,src,a,sz,rd,nw,fits,t}         a socket sent to assoc a  *)
(*  {"ev":"TRecv",did,a,sock,dst,sz,p,ts,t}      a target received         *)
(*  {"ev":"CRecv",sid,a,c,key,salt,hdr,sz,p,wire,t}  a client received     *)
(*  {"ev":"M",m,a,c,key,st,x,y,did,t}            metrics call              *)
(*  {"ev":"Conn",a,op,dl,why,x,t}                call on a fake outbound   *)
(*                                               conn (virtual time only)  *)
(*  {"ev":"Closing"}                             the listener was closed   *)
(*  {"ev":"Clock",t}                             end of a step: now := t,  *)
(*                                               all properties evaluated  *)
(* Values are tokens (dense integers) assigned by the driver / checker:    *)
(* payload and salt tokens are equal iff the byte strings are equal; hdr   *)
(* is the sender's token iff the SOCKS address in the reply is exactly the *)
(* sender's address (IPv4 as type 1, IPv6 as type 4), else -1; key is the  *)
(* configured key under which the SDK decrypts the reply, else 0.          *)
(* The mechanism variables of UdpNat stay in their initial (idle) state.   *)
(***************************************************************************)
EXTENDS UdpNat, Json

CONSTANT Props      \* names of the properties to evaluate (each check evaluates its own)

Trace == ndJsonDeserialize("trace.ndjson")

TrIPOf == [c \in Clients |-> 1]
TrSaltSz == [k \in Keys |-> 32]
TrInitList == <<>>
TrFam == [s \in Senders |-> "v4"]
TrDg == {}
TrRp == {}

VARIABLES l, bad, bads, ntraces, nchecks
tvars == <<l, bad, bads, ntraces, nchecks>>

Ev(e) == l <= Len(Trace) /\ Trace[l].ev = e
L == Trace[l]

EmptyObs == /\ sentC' = <<>> /\ sentS' = <<>> /\ outT' = <<>> /\ mlogH' = <<>>
            /\ outC' = [a \in 1..MaxAssoc |-> <<>>] /\ mlogG' = [a \in 1..MaxAssoc |-> <<>>]
            /\ conn' = [a \in 1..MaxAssoc |-> <<>>]
MechIdle == UNCHANGED <<klist, lastIP, nat, as, nas, inC, inT, crashed, tr>>

TraceInit == /\ Init
             /\ l = 1 /\ bad = "" /\ bads = {} /\ ntraces = 0 /\ nchecks = 0

\* the first property (of those selected) that the observations break; a failed one stops the evaluation for
\* this behaviour
FirstBad ==
  IF "MetricsLanguage" \in Props /\ ~MetricsLanguage' THEN "MetricsLanguage"
  ELSE IF "CreateOnce" \in Props /\ ~CreateOnce' THEN "CreateOnce"
  ELSE IF "CreateOnlyValid" \in Props /\ ~CreateOnlyValid' THEN "CreateOnlyValid"
  ELSE IF "OnePerClient" \in Props /\ ~OnePerClient' THEN "OnePerClient"
  ELSE IF "FwdToNamed" \in Props /\ ~FwdToNamed' THEN "FwdToNamed"
  ELSE IF "FwdAuthentic" \in Props /\ ~FwdAuthentic' THEN "FwdAuthentic"
  ELSE IF "FwdOnce" \in Props /\ ~FwdOnce' THEN "FwdOnce"
  ELSE IF "FwdComplete" \in Props /\ ~FwdComplete' THEN "FwdComplete"
  ELSE IF "ReplyAuthentic" \in Props /\ ~ReplyAuthentic' THEN "ReplyAuthentic"
  ELSE IF "ReplyOnce" \in Props /\ ~ReplyOnce' THEN "ReplyOnce"
  ELSE IF "SaltsFresh" \in Props /\ ~SaltsFresh' THEN "SaltsFresh"
  ELSE IF "ReplyComplete" \in Props /\ ~ReplyComplete' THEN "ReplyComplete"
  ELSE IF "SrcPrivate" \in Props /\ ~SrcPrivate' THEN "SrcPrivate"
  ELSE IF "SrcStable" \in Props /\ ~SrcStable' THEN "SrcStable"
  ELSE IF "OwnerOnly" \in Props /\ ~OwnerOnly' THEN "OwnerOnly"
  ELSE IF "PktCSound" \in Props /\ ~PktCSound' THEN "PktCSound"
  ELSE IF "PktTSound" \in Props /\ ~PktTSound' THEN "PktTSound"
  ELSE IF "PktCPerDatagram" \in Props /\ ~PktCPerDatagram' THEN "PktCPerDatagram"
  ELSE IF "PktTPerReply" \in Props /\ ~PktTPerReply' THEN "PktTPerReply"
  ELSE IF "PktTSize" \in Props /\ ~PktTSize' THEN "PktTSize"
  ELSE IF "RemoveOnce" \in Props /\ ~RemoveOnce' THEN "RemoveOnce"
  ELSE IF "NoEarlyRemoval" \in Props /\ ~NoEarlyRemoval' THEN "NoEarlyRemoval"
  ELSE IF "ReclaimedInTime" \in Props /\ ~ReclaimedInTime' THEN "ReclaimedInTime"
  ELSE IF "ShutdownReclaimed" \in Props /\ ~ShutdownReclaimed' THEN "ShutdownReclaimed"
  ELSE IF "DeadlineMonotone" \in Props /\ ~DeadlineMonotone' THEN "DeadlineMonotone"
  ELSE IF "WriteExtends" \in Props /\ ~WriteExtends' THEN "WriteExtends"
  ELSE IF "NoEarlyClose" \in Props /\ ~NoEarlyClose' THEN "NoEarlyClose"
  ELSE IF "CloseOnce" \in Props /\ ~CloseOnce' THEN "CloseOnce"
  ELSE IF "FastCloseRule" \in Props /\ ~FastCloseRule' THEN "FastCloseRule"
  ELSE ""

Keep == UNCHANGED <<bad, bads, ntraces, nchecks, h>>

TrReset == /\ Ev("Reset")
           /\ EmptyObs /\ now' = 0 /\ closing' = FALSE
           /\ bad' = "" /\ ntraces' = ntraces + 1 /\ h' = [h EXCEPT !.pc = "read"]
           /\ UNCHANGED <<bads, nchecks>>

TrCSend == /\ Ev("CSend")
           /\ sentC' = Append(sentC, [id |-> L.id, c |-> L.c, k |-> L.k, hdr |-> L.hdr, dst |-> L.dst, sz |-> L.sz,
                                      wire |-> L.wire, t |-> L.t, la |-> L.la])
           /\ UNCHANGED <<sentS, outT, outC, mlogH, mlogG, conn, now, closing>> /\ Keep

TrSSend == /\ Ev("SSend")
           /\ sentS' = Append(sentS, [id |-> L.id, src |-> L.src, a |-> L.a, sz |-> L.sz, nw |-> L.nw, t |-> L.t, rd |-> L.rd, fits |-> L.fits])
           /\ UNCHANGED <<sentC, outT, outC, mlogH, mlogG, conn, now, closing>> /\ Keep

TrTRecv == /\ Ev("TRecv")
           /\ outT' = Append(outT, [did |-> L.did, a |-> L.a, sock |-> L.sock, dst |-> L.dst, sz |-> L.sz, p |-> L.p, ts |-> L.ts, t |-> L.t])
           /\ UNCHANGED <<sentC, sentS, outC, mlogH, mlogG, conn, now, closing>> /\ Keep

\* a reply received for an association the driver cannot name (a = 0) is filed under MaxAssoc with sid kept;
\* ReplyAuthentic then fails on it (s.a = a)
TrCRecv == /\ Ev("CRecv")
           /\ LET a == IF L.a \in 1..MaxAssoc THEN L.a ELSE MaxAssoc IN
                outC' = [outC EXCEPT ![a] = Append(@, [sid |-> L.sid, a |-> L.a, c |-> L.c, key |-> L.key, salt |-> L.salt, hdr |-> L.hdr,
                                                       sz |-> L.sz, p |-> L.p, wire |-> L.wire, t |-> L.t])]
           /\ UNCHANGED <<sentC, sentS, outT, mlogH, mlogG, conn, now, closing>> /\ Keep

MRec == [ev |-> L.m, a |-> L.a, c |-> L.c, key |-> L.key, st |-> L.st, x |-> L.x, y |-> L.y, did |-> L.did, t |-> L.t]
TrM == /\ Ev("M")
       /\ IF L.m \in {"PktT", "NatRemove"}
            THEN /\ mlogG' = [mlogG EXCEPT ![IF L.a \in 1..MaxAssoc THEN L.a ELSE MaxAssoc] = Append(@, MRec)]
                 /\ UNCHANGED mlogH
            ELSE /\ mlogH' = Append(mlogH, MRec)
                 /\ UNCHANGED mlogG
       /\ UNCHANGED <<sentC, sentS, outT, outC, conn, now, closing>> /\ Keep

TrConn == /\ Ev("Conn")
          /\ conn' = [conn EXCEPT ![L.a] = Append(@, [op |-> L.op, t |-> L.t, dl |-> L.dl, why |-> L.why, x |-> L.x])]
          /\ UNCHANGED <<sentC, sentS, outT, outC, mlogH, mlogG, now, closing>> /\ Keep

TrClosing == /\ Ev("Closing")
             /\ closing' = TRUE /\ h' = [h EXCEPT !.pc = "returned"]     \* logged after Handle has returned
             /\ UNCHANGED <<obs, now, bad, bads, ntraces, nchecks>>

\* end of a step: the clock is set and every property is evaluated on what has been observed so far
TrClock == /\ Ev("Clock")
           /\ now' = L.t
           /\ UNCHANGED <<obs, closing, h>>
           /\ IF bad # "" THEN UNCHANGED <<bad, bads, nchecks>>
              ELSE LET fb == FirstBad IN
                     /\ bad' = fb
                     /\ bads' = IF fb = "" THEN bads ELSE bads \cup {<<l, ntraces, fb>>}
                     /\ nchecks' = nchecks + 1
           /\ UNCHANGED ntraces

TraceNext == /\ l' = l + 1 /\ MechIdle
             /\ (TrReset \/ TrCSend \/ TrSSend \/ TrTRecv \/ TrCRecv \/ TrM \/ TrConn \/ TrClosing \/ TrClock)
TraceSpec == TraceInit /\ [][TraceNext]_<<vars, tvars>>

Report == (l = Len(Trace) + 1) =>
            PrintT(<<"RESULT", ToJson([lines |-> l - 1, ntraces |-> ntraces, nchecks |-> nchecks,
                                       bads |-> {[line |-> b[1], trace |-> b[2], prop |-> b[3]] : b \in bads}])>>)
NoMid == {}
=============================================================================
