\* one connection, listener closed at any moment (context cancellation of the dial): all property families
SPECIFICATION Spec
CONSTANTS
  Conns = {1}
  HsKinds = {"valid", "garbage"}
  TgtKinds = {"ok", "refuse"}
  MaxC = 1
  MaxT = 1
  MaxTok = 4
  AllowBad = TRUE
  AllowSplit = FALSE
  AllowRst = FALSE
  AllowTClose = FALSE
  AllowCRst = FALSE
  AllowPause = FALSE
  Planned = FALSE
  Timeout = 2
  MaxNow = 3
  DrainMode = "raw"
  Strict = TRUE
  WithServe = TRUE
  Hist = FALSE
  SlackEarly = 0
  SlackLate = 0
  SlackSched = 0
INVARIANTS C18_NoLeak C18_AllReturned C18_ServeWaits C18_SocketsFollowHandler
INVARIANTS Inv_C02 Inv_C06 Inv_C06Drain Inv_C15
VIEW View
