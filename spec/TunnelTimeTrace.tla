---------------------------- MODULE TunnelTimeTrace ----------------------------
(***************************************************************************)
(* Code -> spec.  Validates NDJSON traces recorded from the REAL           *)
(* prometheus collectors (harness/overlay/prometheus, stubbed clock).      *)
(* Events, in the order in which they really happened:                     *)
(*   {"ev":"Reset","locmap":[l_1..l_NI]}    fresh NewServiceMetrics        *)
(*   {"ev":"Open","c":c,"ip":i} {"ev":"Auth","c":c,"key":k} {"ev":"Close","c":c}          TCP            *)
(*   {"ev":"NatAdd","c":c,"ip":i,"key":k} {"ev":"NatRemove","c":c} {"ev":"RemoveAgain","c":c}   UDP      *)
(*   {"ev":"Probe","c":c} {"ev":"Packet","c":c}                                                          *)
(*   {"ev":"Tick","d":d}                    the stub clock advanced        *)
(*   {"ev":"CollectBegin","s":s}            scrape s: Collect called; in   *)
(*                                          the as-is code this is the     *)
(*                                          instant `now()` was read       *)
(*   {"ev":"CollectEnd","s":s,"panic":b,"key":[v_1..v_NK,other],"loc":[v_1..v_NL,other]}                *)
(*                                          scrape s returned: gathered    *)
(*                                          tunnel_time_seconds per key /  *)
(*                                          per location in 1/Scale units; *)
(*                                          or Collect panicked            *)
(* One deterministic pass evaluates both layers:                           *)
(*   viols  = per trace the first line (and kind) where the OBSERVED       *)
(*            values contradict the property layer (C17) - computed from   *)
(*            the ghost account `ideal` (history of opens/closes/ticks)    *)
(*   drifts = per trace the first line where they differ from the          *)
(*            mechanism layer                                              *)
(***************************************************************************)
EXTENDS TunnelTime, Json

CONSTANT Scale            \* observed seconds are integers in units of 1/Scale clock units
Trace == ndJsonDeserialize("trace.ndjson")

VARIABLES l, viols, drifts, tv, td, ntraces, prevKey
tvars == <<l, viols, drifts, tv, td, ntraces, prevKey>>

IsEvent(e) == l <= Len(Trace) /\ Trace[l].ev = e /\ l' = l + 1
Keep == UNCHANGED <<viols, drifts, tv, td, ntraces, prevKey, last, nops, tr>>

RECURSIVE SumSeq(_, _)
SumSeq(q, n) == IF n = 0 THEN 0 ELSE q[n] + SumSeq(q, n - 1)

TraceInit == /\ Init /\ locmap = [i \in IPs |-> 1]
             /\ l = 1 /\ viols = <<>> /\ drifts = <<>> /\ tv = FALSE /\ td = FALSE /\ ntraces = 0 /\ prevKey = ZeroK

TrReset == /\ IsEvent("Reset")
           /\ clock' = 0 /\ conn' = [c \in Conns |-> NoConn] /\ nconn' = 0
           /\ active' = [p \in Pairs |-> NoClient] /\ repKey' = ZeroK /\ repLoc' = ZeroL
           /\ sc' = [s \in Scrapers |-> IdleScraper] /\ crashed' = FALSE
           /\ locmap' = [i \in IPs |-> Trace[l].locmap[i]]
           /\ ideal' = [p \in Pairs |-> 0]
           /\ ntraces' = ntraces + 1 /\ prevKey' = ZeroK /\ tv' = FALSE /\ td' = FALSE
           /\ UNCHANGED <<viols, drifts, last, nops, tr>>

TrOpen   == IsEvent("Open")   /\ OpenCore(Trace[l].c, Trace[l].ip) /\ Keep
TrAuth   == IsEvent("Auth")   /\ AuthCore(Trace[l].c, Trace[l].key) /\ Keep
TrClose  == IsEvent("Close")  /\ CloseCore(Trace[l].c) /\ Keep
TrNatAdd == IsEvent("NatAdd") /\ NatAddCore(Trace[l].c, Trace[l].ip, Trace[l].key) /\ Keep
TrNatRemove   == IsEvent("NatRemove")   /\ NatRemoveCore(Trace[l].c) /\ Keep
TrRemoveAgain == IsEvent("RemoveAgain") /\ RemoveAgainCore(Trace[l].c) /\ Keep
TrProbe  == IsEvent("Probe")  /\ ProbeCore(Trace[l].c) /\ Keep
TrPacket == IsEvent("Packet") /\ PacketCore(Trace[l].c) /\ Keep
TrTick   == IsEvent("Tick")   /\ TickCore(Trace[l].d) /\ Keep
TrBegin  == IsEvent("CollectBegin") /\ CollectBeginCore(Trace[l].s) /\ Keep

\* the scrape returned: compare what it showed with the property layer (verdict) and the mechanism layer (drift)
TrEnd == /\ IsEvent("CollectEnd")
         /\ LET e == Trace[l]
                s == e.s
                loK == sc[s].loK   hiK == IdealKey(ideal)
                loL == sc[s].loL   hiL == IdealLoc(ideal) IN
              /\ CollectLockedCore(s)
              /\ LET pv == IF e.panic THEN "negative-increment"
                           ELSE IF \E k \in Keys : e.key[k] < Scale * loK[k] THEN "under-count"
                           ELSE IF \E k \in Keys : e.key[k] > Scale * hiK[k] THEN "over-count"
                           ELSE IF e.key[NK + 1] # 0 THEN "unknown-key-series"
                           ELSE IF SumSeq(e.loc, NL + 1) # SumSeq(e.key, NK + 1) THEN "loc-sum-mismatch"
                           ELSE IF \E x \in Locs : e.loc[x] < Scale * loL[x] \/ e.loc[x] > Scale * hiL[x] THEN "loc-window"
                           ELSE IF \E k \in Keys : e.key[k] < prevKey[k] THEN "decrease"
                           ELSE ""
                     dr == \/ crashed' # e.panic
                           \/ ~e.panic /\ \/ \E k \in Keys : e.key[k] # Scale * repKey'[k]
                                          \/ \E x \in Locs : e.loc[x] # Scale * repLoc'[x] IN
                   /\ viols'  = IF ~tv /\ pv # "" THEN Append(viols, [line |-> l, kind |-> pv]) ELSE viols
                   /\ tv'     = (tv \/ pv # "")
                   /\ drifts' = IF ~td /\ dr THEN Append(drifts, l) ELSE drifts
                   /\ td'     = (td \/ dr)
              /\ prevKey' = IF e.panic THEN prevKey ELSE [k \in Keys |-> e.key[k]]
         /\ UNCHANGED <<ntraces, last, nops, tr>>

TraceNext == TrReset \/ TrOpen \/ TrAuth \/ TrClose \/ TrNatAdd \/ TrNatRemove \/ TrRemoveAgain \/ TrProbe \/ TrPacket
             \/ TrTick \/ TrBegin \/ TrEnd
TraceSpec == TraceInit /\ [][TraceNext]_<<vars, tvars>>

Report == (l = Len(Trace) + 1) =>
            PrintT(<<"RESULT", ToJson([lines |-> l - 1, ntraces |-> ntraces, viols |-> viols, drifts |-> drifts])>>)
\* all lines consumed: one state per line plus the initial state
TraceAccepted == TLCGet("stats").diameter - 1 = Len(Trace)
\* ghost/mechanism sanity on every real execution (mechanism-level: a failure here is drift, reported by the check)
===============================================================================
