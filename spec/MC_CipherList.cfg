\* exhaustive, quick (a): <= 4 entries, 2 IPs, 3 concurrent lookups, 1 Update after the initial list
SPECIFICATION Spec
CONSTANTS
  IPs = {1, 2}
  Slots = {1, 2, 3}
  Shapes <- ShapesQ
  Openers <- OpenersQ
  MaxUpd = 1
  MaxLk = 3
INVARIANTS TypeOK Sound Complete SnapshotIsPermutation NoAuthNoEffect InvalidRefused ListWellFormed
VIEW View
CHECK_DEADLOCK FALSE
