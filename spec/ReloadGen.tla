------------------------------- MODULE ReloadGen -------------------------------
(* Scenario generation (spec -> code): sequences of load attempts with every fault point. *)
EXTENDS MC_Reload, Json
VARIABLE done
GenInit == Init /\ done = FALSE
GenFinish == nloads = MaxLoads /\ phase = "idle" /\ ~done /\ done' = TRUE /\ UNCHANGED vars
GenNext == (~done /\ Next /\ UNCHANGED done) \/ GenFinish
GenSpec == GenInit /\ [][GenNext]_<<vars, done>>
DumpInv == done => PrintT(<<"BEH", ToJson(tr)>>)
===============================================================================
