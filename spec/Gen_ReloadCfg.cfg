SPECIFICATION GSpec
CONSTANTS
  ConfigSet <- Cat
  KeyCS <- MCKeyCS
  KeyID <- MCKeyID
  Listeners <- MCListeners
  MaxLoads = 0
  ZombieOnFail = FALSE
  MaxSvcs = 3
  MaxKeys = 4
  MaxLs = 3
  MaxLegacy = 5
  GoodKeys = {1, 2, 3, 4, 6, 7, 8}
  SvcListeners <- SvcLs6
INVARIANTS DumpInv
VIEW GView
CHECK_DEADLOCK FALSE
