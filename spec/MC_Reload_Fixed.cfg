SPECIFICATION Spec
CONSTANTS
  ConfigSet <- CatSmall
  KeyCS <- MCKeyCS
  KeyID <- MCKeyID
  Listeners <- MCListeners
  MaxLoads = 3
  ZombieOnFail = FALSE
INVARIANTS AllOrNothing WindowKeepsBoth
VIEW View
CHECK_DEADLOCK FALSE
