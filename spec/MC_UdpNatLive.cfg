\* liveness under fairness, no state constraint: expiry happens, shutdown reclaims everything
SPECIFICATION LiveSpec
CONSTANTS
  Clients = {1}
  IPOf <- MCIPOf
  Keys = {1, 2}
  InitList <- MCInitList
  SaltSz <- MCSaltSz
  Senders = {1, 2, 6}
  Targets = {1, 2}
  DnsPort = {2, 6}
  Allowed = {1, 2}
  Unsendable = {}
  DisarmFirst = TRUE
  Fam <- MCFam
  DgAlpha <- DgLong
  RpAlpha <- RpC14
  MidAlpha <- NoMid
  Sync = FALSE
  T = 2
  DNST = 3
  Ticks = {1, 2}
  MaxNow = 2
  MaxDg = 2
  MaxRp = 1
  MaxAssoc = 2
  Slack = 0
  Bound = 0
  ZonedPanics = FALSE
INVARIANTS TypeOK
PROPERTIES ExpireHappens ShutdownReclaims
CHECK_DEADLOCK FALSE
