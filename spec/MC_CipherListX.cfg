\* exhaustive, thorough (x): all four classes under one secret, AES-128 duplicates, empty list
SPECIFICATION Spec
CONSTANTS
  IPs = {1, 2}
  Slots = {1, 2, 3}
  Shapes <- ShapesX
  Openers <- OpenersX
  MaxUpd = 1
  MaxLk = 3
INVARIANTS TypeOK Sound Complete SnapshotIsPermutation NoAuthNoEffect InvalidRefused ListWellFormed
VIEW View
CHECK_DEADLOCK FALSE
