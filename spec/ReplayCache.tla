------------------------------ MODULE ReplayCache ------------------------------
(***************************************************************************)
(* service/replay.go: the two-generation replay history shared by every    *)
(* service and every reload generation of one process (main.go:65,226,253).*)
(*                                                                         *)
(* Mechanism layer  : active, archive, capacity  - one action per critical *)
(*                    section of Add / Resize (replay.go:83-117).          *)
(* Property layer   : ghosts last/mincap/nadd computed from the history of *)
(*                    calls alone + the observed return value `ret`.       *)
(*   RecentRefused     C07 "a handshake that appeared among the most       *)
(*                     recent N checked handshakes is refused"             *)
(*   FreshAccepted     C07 "a never-seen handshake is refused only on a    *)
(*                     checksum collision" (hashes here ARE the checksums) *)
(* Hashes are the 32-bit pre-hash values; the Go harness maps them         *)
(* injectively to (key id, salt) pairs.                                    *)
(***************************************************************************)
EXTENDS Integers, Sequences, FiniteSets, TLC

CONSTANTS Hashes,      \* set of pre-hash values
          Caps,        \* capacities that Resize / the constructor may choose
          MaxOps       \* bound on operations per behaviour; 0 = unbounded (trace validation)

VARIABLES active, archive, capacity,    \* mechanism (replay.go:33-38)
          last, mincap, nadd,           \* ghosts: index of last presentation, min capacity since, #Add calls
          ret, obl, fresh,              \* observation of the last Add: result, "must refuse", "never seen"
          nops, tr                      \* bound / behaviour history (hidden by VIEW)

mech  == <<active, archive, capacity>>
ghost == <<last, mincap, nadd>>
obs   == <<ret, obl, fresh>>
vars  == <<mech, ghost, obs, nops, tr>>

Min(a, b) == IF a < b THEN a ELSE b

TypeOK == /\ active \subseteq Hashes /\ archive \subseteq Hashes
          /\ capacity \in Caps
          /\ ret \in BOOLEAN /\ obl \in BOOLEAN /\ fresh \in BOOLEAN

Init == /\ active = {} /\ archive = {}
        /\ capacity \in Caps
        /\ last = [h \in Hashes |-> -1]
        /\ mincap = [h \in Hashes |-> 0]
        /\ nadd = 0
        /\ ret = TRUE /\ obl = FALSE /\ fresh = FALSE
        /\ nops = 0
        /\ tr = << [a |-> "New", n |-> capacity] >>

(* ---- property layer: what the history of calls alone says about this Add ---- *)
\* h appeared among the most recent m checked handshakes, m = min capacity in force since then (and m > 0)
MustRefuse(h) == /\ last[h] >= 0
                 /\ (nadd + 1 - last[h]) <= mincap[h]  \* distance 1 = the immediately preceding handshake
NeverSeen(h)  == last[h] < 0

GhostAdd(h) == /\ obl'   = MustRefuse(h)
               /\ fresh' = NeverSeen(h)
               /\ nadd'  = nadd + 1
               /\ last'  = [last EXCEPT ![h] = nadd + 1]
               /\ mincap' = [mincap EXCEPT ![h] = capacity]

GhostResize(n) == /\ mincap' = [h \in Hashes |-> Min(mincap[h], n)]
                  /\ UNCHANGED <<last, nadd>>

(* ---- mechanism layer ---- *)
\* replay.go:84-87  capacity == 0: disabled, every salt is new, nothing recorded
MechAddDisabled(h) == /\ capacity = 0
                      /\ ret' = TRUE
                      /\ UNCHANGED mech
\* replay.go:91-94  fast replay
MechAddHitActive(h) == /\ capacity # 0 /\ h \in active
                       /\ ret' = FALSE
                       /\ UNCHANGED mech
\* replay.go:95-102 archive lookup, rotation, insert
MechAddNew(h) == /\ capacity # 0 /\ h \notin active
                 /\ LET rot == Cardinality(active) >= capacity IN
                      /\ archive' = IF rot THEN active ELSE archive
                      /\ active'  = IF rot THEN {h} ELSE active \cup {h}
                 /\ ret' = (h \notin archive)
                 /\ UNCHANGED capacity

MechAdd(h) == MechAddDisabled(h) \/ MechAddHitActive(h) \/ MechAddNew(h)

AddCore(h) == MechAdd(h) /\ GhostAdd(h)
Add(h) == /\ AddCore(h)
          /\ nops' = nops + 1
          /\ tr' = Append(tr, [a |-> "Add", h |-> h, ret |-> ret', obl |-> obl', fresh |-> fresh'])

\* replay.go:106-117
ResizeCore(n) == /\ capacity' = n
                 /\ UNCHANGED <<active, archive, obs>>
                 /\ GhostResize(n)
Resize(n) == /\ ResizeCore(n)
             /\ nops' = nops + 1
             /\ tr' = Append(tr, [a |-> "Resize", n |-> n])

Bounded == MaxOps = 0 \/ nops < MaxOps

Next == /\ Bounded
        /\ \/ \E h \in Hashes : Add(h)
           \/ \E n \in Caps : Resize(n)

Spec == Init /\ [][Next]_vars

(* ---- properties ---- *)
RecentRefused == obl => ~ret
FreshAccepted == fresh => ret
\* mechanism invariants (documentation of the design; failures here on a trace are "drift")
RememberedWereSeen == \A h \in active \cup archive : last[h] >= 0
\* the design really keeps one more than promised: distance <= mincap + 1 would also hold (checked in MC_ReplayCacheWide)
MustRefuseWide(h) == last[h] >= 0 /\ (nadd + 1 - last[h]) <= mincap[h] + 1 /\ mincap[h] > 0

View == <<mech, ghost, obs, nops>>

===============================================================================
