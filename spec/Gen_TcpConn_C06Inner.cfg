SPECIFICATION GenSpec
CONSTANTS
  Conns = {1}
  HsKinds = {"valid"}
  TgtKinds = {"ok"}
  MaxC = 1
  MaxT = 1
  MaxTok = 6
  AllowBad = TRUE
  AllowSplit = FALSE
  AllowRst = FALSE
  AllowTClose = FALSE
  AllowCRst = FALSE
  AllowPause = FALSE
  Planned = TRUE
  Timeout = 2
  MaxNow = 0
  DrainMode = "inner"
  Strict = TRUE
  WithServe = FALSE
  Hist = TRUE
  SlackEarly = 0
  SlackLate = 0
  SlackSched = 0
INVARIANTS DumpInv
CHECK_DEADLOCK FALSE
