\* exhaustive, thorough: 3 concurrent lookups across 2 Updates, 6 opener classes
SPECIFICATION Spec
CONSTANTS
  IPs = {1, 2}
  Slots = {1, 2, 3}
  Shapes <- ShapesQ
  Openers <- OpenersT
  MaxUpd = 2
  MaxLk = 3
INVARIANTS TypeOK Sound Complete SnapshotIsPermutation NoAuthNoEffect InvalidRefused ListWellFormed
VIEW View
CHECK_DEADLOCK FALSE
