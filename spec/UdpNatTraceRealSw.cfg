\* traces of harness/cmd/udpnat (real sockets), target-switch family (IP literals, other ports of the same hosts and host names; validator = loopback + public): clock in ms, natTimeout 300 ms, DNS timeout 17 s
SPECIFICATION TraceSpec
CONSTANTS
  Clients = {1, 2, 3, 4}
  Keys = {1, 2, 3, 4, 5, 6}
  Senders = {1, 2, 3, 4, 5, 6, 7, 8, 9, 10, 11, 12, 14, 16, 17, 18}
  Targets = {1, 2, 3, 4, 5, 6, 10, 11, 12, 14, 16, 17, 18}
  DnsPort = {2, 5, 8}
  Allowed = {1, 2, 4, 5, 6, 10, 11, 12, 14, 16, 17, 18}
  Unsendable = {14}
  DisarmFirst = TRUE
  T = 300
  DNST = 17000
  Slack = 150
  Bound = 500
  MaxAssoc = 12
  Props = {"MetricsLanguage", "CreateOnce", "CreateOnlyValid", "OnePerClient", "FwdToNamed", "FwdAuthentic", "FwdOnce", "FwdComplete", "ReplyAuthentic", "ReplyOnce", "SaltsFresh", "ReplyComplete", "SrcPrivate", "SrcStable", "OwnerOnly", "PktCSound", "PktTSound", "PktCPerDatagram", "PktTPerReply", "PktTSize", "RemoveOnce", "NoEarlyRemoval", "ReclaimedInTime", "ShutdownReclaimed", "DeadlineMonotone", "WriteExtends", "NoEarlyClose", "CloseOnce", "FastCloseRule"}
  IPOf <- TrIPOf
  InitList <- TrInitList
  SaltSz <- TrSaltSz
  Fam <- TrFam
  DgAlpha <- TrDg
  RpAlpha <- TrRp
  MidAlpha <- NoMid
  Sync = TRUE
  Ticks = {}
  MaxNow = 0
  MaxDg = 0
  MaxRp = 0
  ZonedPanics = FALSE
INVARIANTS Report
CHECK_DEADLOCK FALSE
