\* traces of the in-package natmap harness under virtual time: clock in model units, exact instants
SPECIFICATION TraceSpec
CONSTANTS
  Clients = {1, 2, 3}
  Keys = {1}
  Senders = {1, 2, 3, 7, 8}
  Targets = {1, 2, 3}
  DnsPort = {2, 8}
  Allowed = {1, 2, 3}
  Unsendable = {3}
  DisarmFirst = TRUE
  T = 2
  DNST = 4
  Slack = 0
  Bound = 0
  MaxAssoc = 12
  Props = {"MetricsLanguage", "CreateOnce", "CreateOnlyValid", "OnePerClient", "FwdAuthentic", "FwdOnce", "FwdComplete", "ReplyAuthentic", "ReplyOnce", "SaltsFresh", "ReplyComplete", "SrcPrivate", "SrcStable", "OwnerOnly", "PktCSound", "PktTSound", "PktCPerDatagram", "PktTPerReply", "PktTSize", "RemoveOnce", "NoEarlyRemoval", "ReclaimedInTime", "ShutdownReclaimed", "DeadlineMonotone", "WriteExtends", "NoEarlyClose", "CloseOnce", "FastCloseRule"}
  IPOf <- TrIPOf
  InitList <- TrInitList
  SaltSz <- TrSaltSz
  Fam <- TrFam
  DgAlpha <- TrDg
  RpAlpha <- TrRp
  MidAlpha <- NoMid
  Sync = TRUE
  Ticks = {}
  MaxNow = 0
  MaxDg = 0
  MaxRp = 0
  ZonedPanics = FALSE
INVARIANTS Report
CHECK_DEADLOCK FALSE
