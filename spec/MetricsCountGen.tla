--------------------------- MODULE MetricsCountGen ---------------------------
(* Spec -> code: simulated per-connection report sequences (one JSON behaviour per Finish step), executed sequentially
   and - several behaviours at once, one per goroutine, against concurrent scrapes - on the real collectors of
   prometheus.NewServiceMetrics by harness/overlay/prometheus/zz_verif_metricscount_test.go.
   TLC's simulator chooses uniformly among successor STATES; the parameter-rich actions (Close, PktC) would crowd out
   the others, so a behaviour alternates "choose a kind of call" / "perform a call of that kind". *)
EXTENDS MetricsCount, Json
VARIABLES done, kind
Kinds == {"Open", "Auth", "Probe", "Close", "NatAdd", "PktC", "PktT", "NatRemove", "Scrape"}
Do(k) == CASE k = "Open"   -> \E c \in Conns, x \in Locs : Open(c, x)
           [] k = "Auth"   -> \E c \in Conns, q \in Keys : Auth(c, q)
           [] k = "Probe"  -> \E c \in Conns, b \in Amounts : Probe(c, b)
           [] k = "Close"  -> \E c \in Conns, s \in 1..NST, d \in [Dirs -> Amounts] : Close(c, s, d)
           [] k = "NatAdd" -> \E c \in Conns, q \in Keys, x \in Locs : NatAdd(c, q, x)
           [] k = "PktC"   -> \E c \in Conns, s \in 1..NSU, n \in Counts, cp \in Amounts, pt \in Amounts : PktC(c, s, n, cp, pt)
           [] k = "PktT"   -> \E c \in Conns, n \in Counts, tp \in Amounts, pc \in Amounts : PktT(c, n, tp, pc)
           [] k = "NatRemove" -> \E c \in Conns : NatRemove(c)
           [] k = "Scrape" -> Scrape
           [] OTHER -> FALSE
GenInit == Init /\ done = FALSE /\ kind = ""
Finish  == ~done /\ nops >= MaxOps /\ done' = TRUE /\ UNCHANGED <<vars, kind>>
Choose  == ~done /\ nops < MaxOps /\ kind = "" /\ \E k \in Kinds : kind' = k /\ UNCHANGED <<vars, done>>
Perform == ~done /\ kind # "" /\ kind' = "" /\ UNCHANGED done
           /\ (Do(kind) \/ (~ENABLED Do(kind) /\ UNCHANGED vars))
GenNext == Choose \/ Perform \/ Finish
GenSpec == GenInit /\ [][GenNext]_<<vars, done, kind>>
DumpInv == done => PrintT(<<"BEH", ToJson(tr)>>)
===============================================================================
