\* exhaustive, quick: 5 keys (all classes, shared secret, duplicate), 3 connections, 2 in flight, every salt choice
SPECIFICATION Spec
CONSTANTS
  Keys <- KeysQ
  Conns = {1, 2, 3}
  CacheModes = {"nil", "zero", "on"}
  MaxSalt = 6
  Faults = TRUE
  MaxInFlight = 2
INVARIANTS TypeOK RespSaltsFresh RespSaltsRecognised ReflectedNeverAuthenticated StatusClasses ProbeNoEffect
VIEW View
CHECK_DEADLOCK FALSE
