SPECIFICATION GenSpec
CONSTANTS
  Conns = {1}
  HsKinds = {"valid", "garbage", "replayC", "replayS"}
  TgtKinds = {"ok", "refuse", "deny"}
  MaxC = 2
  MaxT = 2
  MaxTok = 6
  AllowBad = TRUE
  AllowSplit = TRUE
  AllowRst = TRUE
  AllowTClose = TRUE
  AllowCRst = TRUE
  AllowPause = FALSE
  Planned = TRUE
  Timeout = 2
  MaxNow = 0
  DrainMode = "raw"
  Strict = TRUE
  WithServe = FALSE
  Hist = TRUE
  SlackEarly = 0
  SlackLate = 0
  SlackSched = 0
INVARIANTS DumpInv
CHECK_DEADLOCK FALSE
