SPECIFICATION GenSpec
CONSTANTS
  Hashes = {1, 2, 3, 4, 5, 6}
  Caps = {0, 1, 2, 3, 4}
  MaxOps = 14
INVARIANTS DumpInv
CHECK_DEADLOCK FALSE
