--------------------------- MODULE CipherListTrace ---------------------------
(***************************************************************************)
(* Code -> spec.  Validates NDJSON traces recorded by harness/cmd/tcpauth  *)
(* from the real service.CipherList (behind a recording wrapper), the real *)
(* NewShadowsocksStreamAuthenticator / NewStreamHandler and real sockets.  *)
(*                                                                         *)
(* Sequential traces (driver `beh`: one server step at a time, the wrapper *)
(* gates MarkUsedByClientIP) drive the mechanism layer of CipherList:      *)
(*   {"ev":"Reset"}                                                        *)
(*   {"ev":"Update","ents":[{"name","cls","sec"}..]}   tokens = Len(ent)+i *)
(*   {"ev":"Snapshot","g","ip","op":{kind,cls,sec},"order":[tokens]}       *)
(*   {"ev":"NoSnapshot","g","ip","op","why"}  the server ended the         *)
(*        connection (panic in the handler, close) before any snapshot     *)
(*   {"ev":"Read50","g","ok"}                                              *)
(*   {"ev":"Find","g","e"}          outcome of the search as observed      *)
(*   {"ev":"Mark","g","e","ip"}     arguments of the real call             *)
(*   {"ev":"Result","g","name","st","dial","bytes","authm"}                *)
(*        name = id returned by the authenticator (0 = error), st = status *)
(*        dial = the recording dialer saw this connection's target,        *)
(*        bytes = bytes the client socket received, authm = argument of    *)
(*        AddAuthenticated (0 = not called)                                *)
(* Concurrent traces (driver `conc`, C19) carry call/return events in      *)
(* real-time order; only the property layer is evaluated, against every    *)
(* list generation that may have been current during the snapshot call:    *)
(*   {"ev":"CReset","ents":[{"name","cls","sec","gen"}..]}                 *)
(*   {"ev":"UpdCall","k"} {"ev":"UpdRet","k"}                              *)
(*   {"ev":"SnapCall","g"} {"ev":"SnapRet","g","order":[tokens]}           *)
(*   {"ev":"CResult","g","op","name","st"}       st = "PANIC": recovered   *)
(*   {"ev":"CPanic","g","where","msg"}    a direct list call panicked      *)
(*                                                                         *)
(* One deterministic pass:                                                 *)
(*   viols       first line of each kind whose OBSERVED values break the   *)
(*               property layer                                            *)
(*               (Sound, Complete, SnapshotIsPermutation, NoAuthNoEffect,  *)
(*               InvalidRefused) - the verdict                             *)
(*   drift/dkind first line that differs from the mechanism layer (exact   *)
(*               snapshot order, which duplicate was found, Mark args)     *)
(***************************************************************************)
EXTENDS CipherList, Json

CONSTANTS MaxSlot, MaxGen
Trace == ndJsonDeserialize("trace.ndjson")
TraceSlots == 1..MaxSlot
TraceNone == {}

VARIABLES l, viols, drift, dkind, ntraces,
          cmay,     \* conc: generations that may be the current list now
          cpend,    \* conc: Update calls that have not returned
          cbefore,  \* conc: generation -> generations certainly installed before its Update was called
          ccand,    \* conc: slot -> generations that may have been current since its SnapshotForClientIP was called
          cat       \* conc: slot -> generation its last snapshot was taken from
tvars == <<l, viols, drift, dkind, ntraces, cmay, cpend, cbefore, ccand, cat>>
cvars == <<cmay, cpend, cbefore, ccand, cat>>

Ev == Trace[l]
IsEvent(e) == l <= Len(Trace) /\ Trace[l].ev = e /\ l' = l + 1

\* viols: the first line of every KIND of property-layer failure, <<line, kind>>
NoteViol(k)  == viols' = IF k # "" /\ ~(\E i \in 1..Len(viols) : viols[i][2] = k) THEN Append(viols, <<l, k>>) ELSE viols
NoteDrift(k) == /\ drift' = IF drift = 0 /\ k # "" THEN l ELSE drift
                /\ dkind' = IF drift = 0 /\ k # "" THEN k ELSE dkind
NoViol  == UNCHANGED viols
NoDrift == UNCHANGED <<drift, dkind>>

Gens == 0..MaxGen
EmptyC == /\ cmay' = {0} /\ cpend' = {} /\ cbefore' = [k \in Gens |-> {}]
          /\ ccand' = [g \in Slots |-> {}] /\ cat' = [g \in Slots |-> 0]

TraceInit == /\ list = <<>> /\ gen = 0 /\ ent = <<>> /\ lastIP = <<>>
             /\ lk = [g \in Slots |-> IdleLk]
             /\ nupd = 0 /\ nlk = 0 /\ tr = <<>>
             /\ l = 1 /\ viols = <<>> /\ drift = 0 /\ dkind = "" /\ ntraces = 0
             /\ cmay = {0} /\ cpend = {} /\ cbefore = [k \in Gens |-> {}]
             /\ ccand = [g \in Slots |-> {}] /\ cat = [g \in Slots |-> 0]

(* ------------------------------------------------------------ sequential traces *)
TrReset == /\ IsEvent("Reset")
           /\ list' = <<>> /\ gen' = 0 /\ ent' = <<>> /\ lastIP' = <<>>
           /\ lk' = [g \in Slots |-> IdleLk]
           /\ ntraces' = ntraces + 1
           /\ EmptyC
           /\ UNCHANGED <<nupd, nlk, tr>> /\ NoViol /\ NoDrift

TrUpdate == /\ IsEvent("Update")
            /\ UpdateCore(Ev.ents)
            /\ UNCHANGED <<nupd, nlk, tr, ntraces>> /\ UNCHANGED cvars /\ NoViol /\ NoDrift

\* the property layer on the observed order: a permutation of the current list
ObsPerm(order, k) == /\ Len(order) = Cardinality(GenEnts(k))
                     /\ Range(order) = GenEnts(k)

TrSnapshot ==
  /\ IsEvent("Snapshot")
  /\ LET g == Ev.g
         model == SnapshotOrder(Ev.ip) IN
       /\ lk' = [lk EXCEPT ![g] = [IdleLk EXCEPT !.ph = "snapped", !.ip = Ev.ip, !.op = Ev.op,
                                                 !.snap = Ev.order, !.at = gen]]
       /\ NoteViol(IF ObsPerm(Ev.order, gen) THEN "" ELSE "snapshot-not-permutation")
       /\ NoteDrift(IF lk[g].ph \notin {"idle", "done"} THEN "snapshot-phase"
                    ELSE IF Ev.order # model THEN "snapshot-order" ELSE "")
  /\ UNCHANGED <<list, gen, ent, lastIP, nupd, nlk, tr, ntraces>> /\ UNCHANGED cvars

\* the server ended the connection (handler panicked inside SnapshotForClientIP / closed) before the client sent a byte:
\* there is no snapshot; what the client would have sent is known from the script, and the Result that follows is judged
\* against the list current now (a client holding a configured key must be authenticated, not dropped)
TrNoSnapshot ==
  /\ IsEvent("NoSnapshot")
  /\ lk' = [lk EXCEPT ![Ev.g] = [IdleLk EXCEPT !.ph = "done", !.ip = Ev.ip, !.op = Ev.op, !.at = gen]]
  /\ NoteDrift("snapshot-missing")
  /\ UNCHANGED <<list, gen, ent, lastIP, nupd, nlk, tr, ntraces>> /\ UNCHANGED cvars /\ NoViol

TrRead50 ==
  /\ IsEvent("Read50")
  /\ LET g == Ev.g IN
       IF lk[g].ph = "snapped" /\ Ev.ok = ~ReadFails(lk[g].op)
       THEN Read50Core(g) /\ NoDrift
       ELSE /\ lk' = [lk EXCEPT ![g] = [@ EXCEPT !.ph = IF Ev.ok THEN "read" ELSE "done"]]
            /\ NoteDrift("read50-phase")
            /\ UNCHANGED <<list, gen, ent, lastIP>>
  /\ UNCHANGED <<nupd, nlk, tr, ntraces>> /\ UNCHANGED cvars /\ NoViol

\* the search as observed: which element the real code is about to mark (0 = none found)
TrFind ==
  /\ IsEvent("Find")
  /\ LET g == Ev.g
         e == Ev.e
         model == IF lk[g].ph = "read" THEN FirstHit(g) ELSE -1 IN
       /\ lk' = [lk EXCEPT ![g] = IF e = 0 THEN Finished(@, "ERR_CIPHER", 0, FALSE)
                                           ELSE [@ EXCEPT !.ph = "found", !.elt = e]]
       /\ NoteDrift(IF model = -1 THEN "find-phase" ELSE IF model # e THEN "find-other-entry" ELSE "")
  /\ UNCHANGED <<list, gen, ent, lastIP, nupd, nlk, tr, ntraces>> /\ UNCHANGED cvars /\ NoViol

TrMark ==
  /\ IsEvent("Mark")
  /\ LET g == Ev.g
         e == Ev.e IN
       /\ MarkEffect(e, Ev.ip)
       /\ lk' = [lk EXCEPT ![g] = [Finished(@, "OK", ent[e].name, FALSE) EXCEPT !.ph = "authed"]]
       /\ NoteDrift(IF lk[g].ph # "found" THEN "mark-phase"
                    ELSE IF lk[g].elt # e \/ lk[g].ip # Ev.ip THEN "mark-args" ELSE "")
  /\ UNCHANGED <<gen, ent, nupd, nlk, tr, ntraces>> /\ UNCHANGED cvars /\ NoViol

\* what the client, the dialer and the metrics saw for this connection, judged by the property layer alone
Judge(o) == IF ~SoundOf(o) THEN "unsound-attribution"
            ELSE IF ~CompleteOf(o) THEN "valid-key-refused"
            ELSE IF (o.dial \/ o.wrote) /\ ~(o.res # 0 /\ o.st = "OK") THEN "effect-without-authentication"
            ELSE IF (o.op.kind # "valid" \/ KeyIn(o.op, o.at) = {}) /\ ~(o.res = 0 /\ ~o.dial /\ ~o.wrote)
                 THEN "invalid-opener-accepted"
            ELSE ""

TrResult ==
  /\ IsEvent("Result")
  /\ LET g == Ev.g
         o == [Finished(lk[g], Ev.st, Ev.name, FALSE) EXCEPT !.dial = Ev.dial,
                                                             !.wrote = (Ev.bytes > 0 \/ Ev.authm # 0)]
         model == IF lk[g].ph = "authed" THEN Finished(lk[g], "OK", lk[g].res, TRUE) ELSE lk[g] IN
       /\ lk' = [lk EXCEPT ![g] = o]
       /\ NoteViol(IF Judge(o) = "valid-key-refused" /\ Ev.st = "PANIC" THEN "lookup-crashed" ELSE Judge(o))
       /\ NoteDrift(IF lk[g].ph \notin {"authed", "done"} THEN "result-phase"
                    ELSE IF model.res # o.res \/ model.st # o.st THEN "result-differs"
                    ELSE IF Ev.authm # o.res THEN "metric-id-differs" ELSE "")
  /\ UNCHANGED <<list, gen, ent, lastIP, nupd, nlk, tr, ntraces>> /\ UNCHANGED cvars

(* ------------------------------------------------------------ concurrent traces *)
TrCReset == /\ IsEvent("CReset")
            /\ ent' = Ev.ents /\ lastIP' = [i \in 1..Len(Ev.ents) |-> 0]
            /\ list' = <<>> /\ gen' = 0
            /\ lk' = [g \in Slots |-> IdleLk]
            /\ ntraces' = ntraces + 1
            /\ EmptyC
            /\ UNCHANGED <<nupd, nlk, tr>> /\ NoViol /\ NoDrift

CUnch == UNCHANGED <<list, gen, ent, lastIP, lk, nupd, nlk, tr, ntraces>>

TrUpdCall == /\ IsEvent("UpdCall")
             /\ LET k == Ev.k IN
                  /\ cbefore' = [cbefore EXCEPT ![k] = cmay \ cpend]
                  /\ cmay'  = cmay \cup {k}
                  /\ cpend' = cpend \cup {k}
                  /\ ccand' = [g \in Slots |-> IF ccand[g] = {} THEN {} ELSE ccand[g] \cup {k}]
             /\ UNCHANGED cat /\ CUnch /\ NoViol /\ NoDrift

\* once Update(k) has returned, every list installed before Update(k) was called is gone for good
TrUpdRet == /\ IsEvent("UpdRet")
            /\ LET k == Ev.k IN
                 /\ cmay'  = cmay \ cbefore[k]
                 /\ cpend' = cpend \ {k}
            /\ UNCHANGED <<cbefore, ccand, cat>> /\ CUnch /\ NoViol /\ NoDrift

TrSnapCall == /\ IsEvent("SnapCall")
              /\ ccand' = [ccand EXCEPT ![Ev.g] = cmay]
              /\ UNCHANGED <<cmay, cpend, cbefore, cat>> /\ CUnch /\ NoViol /\ NoDrift

TrSnapRet ==
  /\ IsEvent("SnapRet")
  /\ LET g == Ev.g
         o == Ev.order
         k == IF Len(o) = 0 THEN 0 ELSE IF o[1] \in 1..Len(ent) THEN ent[o[1]].gen ELSE -1 IN
       /\ NoteViol(IF k = -1 \/ ~ObsPerm(o, k) THEN "snapshot-not-permutation"
                   ELSE IF k \notin ccand[g] THEN "snapshot-of-a-list-not-current-during-the-call" ELSE "")
       /\ cat' = [cat EXCEPT ![g] = IF k = -1 THEN 0 ELSE k]
       /\ ccand' = [ccand EXCEPT ![g] = {}]
  /\ UNCHANGED <<cmay, cpend, cbefore>> /\ CUnch /\ NoDrift

\* a panic of the code under test is the result of no sequential order of the same calls
TrCResult ==
  /\ IsEvent("CResult")
  /\ LET g == Ev.g
         o == [IdleLk EXCEPT !.ph = "done", !.op = Ev.op, !.at = cat[g], !.st = Ev.st, !.res = Ev.name] IN
       NoteViol(IF Ev.st = "PANIC" THEN "lookup-crashed" ELSE Judge(o))
  /\ UNCHANGED cvars /\ CUnch /\ NoDrift

\* a direct SnapshotForClientIP / MarkUsedByClientIP / Update call panicked
TrCPanic == /\ IsEvent("CPanic")
            /\ NoteViol("list-operation-crashed")
            /\ UNCHANGED cvars /\ CUnch /\ NoDrift

TraceNext == \/ TrReset \/ TrUpdate \/ TrSnapshot \/ TrNoSnapshot \/ TrRead50 \/ TrFind \/ TrMark \/ TrResult
             \/ TrCReset \/ TrUpdCall \/ TrUpdRet \/ TrSnapCall \/ TrSnapRet \/ TrCResult \/ TrCPanic
TraceSpec == TraceInit /\ [][TraceNext]_<<vars, tvars>>

Report == (l = Len(Trace) + 1) =>
            PrintT(<<"RESULT", ToJson([lines |-> l - 1, ntraces |-> ntraces, viols |-> viols,
                                       drift |-> drift, dkind |-> dkind])>>)
\* all lines consumed: one state per line plus the initial state
TraceAccepted == TLCGet("stats").diameter - 1 = Len(Trace)
===============================================================================
