\* anti-vacuity: TLC must VIOLATE Witness (the antecedents of the property layer are reachable)
SPECIFICATION Spec
CONSTANTS
  NI = 2
  NK = 2
  NL = 2
  MaxConn = 3
  MaxClock = 2
  TickSet = {1, 2}
  NS = 1
  MaxOps = 0
  ClockUnderLock = TRUE
  Interleave = TRUE
  WithTraffic = FALSE
  WithUnknownStop = FALSE
  Forms = {1}
  LocMaps <- CanonLocMaps
INVARIANTS Witness
VIEW View
CHECK_DEADLOCK FALSE
