----------------------------- MODULE ListenersGen -----------------------------
(* Schedule generation (spec -> code).  Each simulated behaviour ends with a Finish step that prints the script
   and the schedule <<process, label>>*.  A state in which some call has not returned and nothing is enabled
   (a deadlock of the design) is printed too, marked dead. *)
EXTENDS MC_Listeners, Json
VARIABLES done, flagged
TermCond == \A t \in Threads : (pc[t] = "idle" /\ ~HasOp(t)) \/ Parked(t)
BadCond == bad # {} \/ ~CleanAfterAllClosed
GenInit == Init /\ done = FALSE /\ flagged = FALSE
GenFinish == TermCond /\ ~done /\ done' = TRUE /\ UNCHANGED <<vars, flagged>>
Work == ThreadStep \/ GorStep \/ EnvStep
GenNext == (~done /\ Work /\ UNCHANGED done /\ flagged' = (flagged \/ BadCond)) \/ GenFinish
GenSpec == GenInit /\ [][GenNext]_<<vars, done, flagged>>
Beh(d) == [script |-> script, steps |-> tr, dead |-> d, bad |-> bad, unclean |-> ~CleanAfterAllClosed]
DumpInv == /\ done => PrintT(<<"BEH", ToJson(Beh(FALSE))>>)
           /\ (~done /\ ~TermCond /\ ~ENABLED Work) => PrintT(<<"BEH", ToJson(Beh(TRUE))>>)
           /\ (~done /\ BadCond /\ ~flagged) => PrintT(<<"BEH", ToJson(Beh(FALSE))>>)
===============================================================================
