--------------------------- MODULE LocationLabelGen ---------------------------
(* Spec -> code: the exhaustive run prints every row of the decision table once it is decided
   (entry point, address class, database behaviour, expected label, whether the database may be asked, error return);
   the driver harness/cmd/locationlabel executes each row on the real ipinfo functions with many concrete addresses. *)
EXTENDS LocationLabel, Json
RowInv == (pc = "done") =>
            PrintT(<<"BEH", ToJson([entry |-> entry, cls |-> cls, db |-> db, label |-> label,
                                    consulted |-> consulted, err |-> err])>>)
===============================================================================
