\* exhaustive, small: mechanism (counters as the collectors keep them) => property (sums of per-connection facts)
SPECIFICATION Spec
CONSTANTS
  NK = 2
  NST = 2
  NL = 2
  NSU = 1
  EmptyKey = 2
  MaxConn = 2
  MaxOps = 5
  Amounts = {0, 1}
  Counts = {1}
INVARIANTS TypeOK ShownTcp ShownUdp ShownLoc OpenedEqClosed RememberedIsOwn
VIEW ViewN
CHECK_DEADLOCK FALSE
