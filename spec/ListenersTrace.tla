---------------------------- MODULE ListenersTrace ----------------------------
(***************************************************************************)
(* Code -> spec, property layer of C12 / C13 over API-level events that    *)
(* the listeners driver records from the real service.ListenerManager      *)
(* (gated schedule replays and free-running stress rounds):                *)
(*   Sched        a new scenario with a fresh manager (reset)              *)
(*   ListenEnd{h,k,ok}  CloseStart{h} CloseEnd{h}                          *)
(*   AcceptStart{t,h}   AcceptEnd{t,h,res in item|closed|err,item}         *)
(*   Connect{item,k,ok} Stuck{t,op}  Rebind{k,ok}  ItemFate{item,fate,by}  *)
(*   Leak{n}  End{clean}                                                   *)
(*   ClientSaw{item,what in closed|reset}  client side of a connection     *)
(*                that no call has returned, looked at before the cleanup  *)
(* Line order is a real-time order: every event is written under one lock, *)
(* Start events before the call, End events after it returned.             *)
(* One deterministic pass; the first line violating each property clause   *)
(* is recorded in vio[kind] and printed at the end.                        *)
(***************************************************************************)
EXTENDS Integers, Sequences, FiniteSets, TLC, Json

CONSTANTS MaxH, MaxT, MaxItem

Trace == ndJsonDeserialize("trace.ndjson")

Kinds == << "deadlock",                  \* C13: a listen/close call did not return
            "listen-failed",             \* C13: manager not usable / sharing broken (address held only by the manager)
            "delivered-after-close",     \* C12: a call that began after Close returned got a connection/datagram, or a handle got
                                         \*      one that was sent only after its Close had returned (even through an older call)
            "duplicate-delivery",        \* C12: one connection/datagram delivered twice
            "spurious-closed",           \* C12: closed-network error on a handle nobody closed
            "accept-not-unblocked",      \* C12: pending accept/read not released by Close
            "socket-not-released",       \* C12: address cannot be bound after the last close
            "connection-left-hanging",   \* C12: accepted connection neither served nor closed
            "goroutine-leak",            \* C12: something keeps running after the last close
            "wrong-source-address",      \* C12/C04: the source address returned with a datagram is not (or does not stay) the sender's
            "item-lost",                 \* C12: a connection/datagram was never delivered although, from its arrival on, some
                                         \*      handle of its address was open all the time and a call was still waiting
            "call-panicked",             \* C12/C13: a listen/close/accept call panicked instead of returning
            "datagram-truncated",        \* C12: a datagram was handed out shorter than it was sent (receive buffer of the caller: 65600)
            "dropped-while-open" >>      \* C12: the client saw the server close or reset a connection that no call had returned,
                                         \*      although from its arrival until now some handle of its address was open all the
                                         \*      time ("closed rather than left hanging" is for connections nobody can take any more)
NK == Len(Kinds)
KindIdx(s) == CHOOSE i \in 1..NK : Kinds[i] = s

VARIABLES l, closeStarted, closeDone, acc, delivered, vio, nsched, ndrift, keyOf, itemKey, gap, closedAtSend
tvars == <<l, closeStarted, closeDone, acc, delivered, vio, nsched, ndrift, keyOf, itemKey, gap, closedAtSend>>

Fresh == /\ closeStarted' = [h \in 1..MaxH |-> FALSE]
         /\ closeDone' = [h \in 1..MaxH |-> FALSE]
         /\ acc' = [t \in 0..MaxT |-> [h |-> 0, after |-> FALSE]]
         /\ delivered' = [i \in 1..MaxItem |-> 0]
         /\ keyOf' = [h \in 1..MaxH |-> 0]
         /\ itemKey' = [i \in 1..MaxItem |-> 0]
         /\ gap' = [i \in 1..MaxItem |-> FALSE]
         /\ closedAtSend' = [i \in 1..MaxItem |-> {}]

\* handles of key k that are open: listen succeeded, Close not started
OpenOn(k, cs) == {h \in 1..MaxH : keyOf[h] = k /\ ~cs[h]}

Init == /\ l = 1
        /\ closeStarted = [h \in 1..MaxH |-> FALSE]
        /\ closeDone = [h \in 1..MaxH |-> FALSE]
        /\ acc = [t \in 0..MaxT |-> [h |-> 0, after |-> FALSE]]
        /\ delivered = [i \in 1..MaxItem |-> 0]
        /\ vio = [k \in 1..NK |-> 0]
        /\ nsched = 0 /\ ndrift = 0
        /\ keyOf = [h \in 1..MaxH |-> 0]
        /\ itemKey = [i \in 1..MaxItem |-> 0]
        /\ gap = [i \in 1..MaxItem |-> FALSE]
        /\ closedAtSend = [i \in 1..MaxItem |-> {}]

Flag(kinds) == vio' = [k \in 1..NK |-> IF vio[k] = 0 /\ Kinds[k] \in kinds THEN l ELSE vio[k]]

E == Trace[l]
Is(e) == l <= Len(Trace) /\ E.ev = e /\ l' = l + 1

TrSched == Is("Sched") /\ Fresh /\ nsched' = nsched + 1 /\ UNCHANGED <<vio, ndrift>>

TrListenEnd == /\ Is("ListenEnd")
               /\ Flag(IF E.ok \/ E.foreign THEN {} ELSE {"listen-failed"})   \* a foreign socket holds the address: must fail
               /\ keyOf' = IF E.ok THEN [keyOf EXCEPT ![E.h] = E.k] ELSE keyOf
               /\ UNCHANGED <<closeStarted, closeDone, acc, delivered, nsched, ndrift, itemKey, gap, closedAtSend>>

\* when the last open handle of an address closes, everything undelivered on that address may legitimately be dropped
TrCloseStart == /\ Is("CloseStart")
                /\ closeStarted' = [closeStarted EXCEPT ![E.h] = TRUE]
                /\ gap' = [i \in 1..MaxItem |->
                            gap[i] \/ (itemKey[i] # 0 /\ itemKey[i] = keyOf[E.h] /\ OpenOn(keyOf[E.h], closeStarted') = {})]
                /\ UNCHANGED <<closeDone, acc, delivered, vio, nsched, ndrift, keyOf, itemKey, closedAtSend>>
TrCloseEnd == /\ Is("CloseEnd")
              /\ closeDone' = [closeDone EXCEPT ![E.h] = TRUE]
              /\ UNCHANGED <<closeStarted, acc, delivered, vio, nsched, ndrift, keyOf, itemKey, gap, closedAtSend>>

TrAcceptStart == /\ Is("AcceptStart")
                 /\ acc' = [acc EXCEPT ![E.t] = [h |-> E.h, after |-> closeDone[E.h]]]
                 /\ UNCHANGED <<closeStarted, closeDone, delivered, vio, nsched, ndrift, keyOf, itemKey, gap, closedAtSend>>

TrAcceptEnd ==
  /\ Is("AcceptEnd")
  /\ IF E.res = "item" /\ E.item >= 1 /\ E.item <= MaxItem
     THEN /\ Flag((IF acc[E.t].after \/ E.h \in closedAtSend[E.item] THEN {"delivered-after-close"} ELSE {})
                  \cup (IF delivered[E.item] >= 1 THEN {"duplicate-delivery"} ELSE {}))
          /\ delivered' = [delivered EXCEPT ![E.item] = delivered[E.item] + 1]
          /\ UNCHANGED ndrift
     ELSE IF E.res = "closed"
     THEN /\ Flag(IF closeStarted[E.h] THEN {} ELSE {"spurious-closed"})
          /\ UNCHANGED <<delivered, ndrift, closedAtSend>>
     ELSE \* an error other than "closed": drift, unless the driver made an accept fail in this scenario (fault injection)
          /\ ndrift' = IF "injected" \in DOMAIN E /\ E.injected THEN ndrift ELSE ndrift + 1
          /\ UNCHANGED <<delivered, vio, closedAtSend>>
  /\ acc' = [acc EXCEPT ![E.t] = [h |-> 0, after |-> FALSE]]
  /\ UNCHANGED <<closeStarted, closeDone, nsched, keyOf, itemKey, gap, closedAtSend>>

TrStuck == /\ Is("Stuck")
           /\ Flag(IF E.op \in {"listen", "close"} THEN {"deadlock"}
                   ELSE IF E.op = "accept-after-close" THEN {"accept-not-unblocked"} ELSE {"deadlock"})
           /\ UNCHANGED <<closeStarted, closeDone, acc, delivered, nsched, ndrift, keyOf, itemKey, gap, closedAtSend>>

TrRebind == /\ Is("Rebind")
            /\ Flag(IF E.ok THEN {} ELSE {"socket-not-released"})
            /\ UNCHANGED <<closeStarted, closeDone, acc, delivered, nsched, ndrift, keyOf, itemKey, gap, closedAtSend>>

TrItemFate == /\ Is("ItemFate")
              /\ Flag(IF E.fate = "hanging" THEN {"connection-left-hanging"} ELSE {})
              /\ ndrift' = IF E.fate = "served" /\ E.item >= 1 /\ E.item <= MaxItem /\ delivered[E.item] = 0
                           THEN ndrift + 1 ELSE ndrift
              /\ UNCHANGED <<closeStarted, closeDone, acc, delivered, nsched, keyOf, itemKey, gap, closedAtSend>>

TrLeak == /\ Is("Leak")
          /\ Flag(IF E.n > 0 THEN {"goroutine-leak"} ELSE {})
          /\ UNCHANGED <<closeStarted, closeDone, acc, delivered, nsched, ndrift, keyOf, itemKey, gap, closedAtSend>>

\* an item is sent at some instant between ConnectStart and Connect: from ConnectStart on, any moment without an open
\* handle on its address is a moment at which it may legitimately have been refused or dropped
TrConnectStart == /\ Is("ConnectStart")
                  /\ IF E.item >= 1 /\ E.item <= MaxItem
                     THEN /\ itemKey' = [itemKey EXCEPT ![E.item] = E.k]
                          /\ gap' = [gap EXCEPT ![E.item] = OpenOn(E.k, closeStarted) = {}]
                          /\ closedAtSend' = [closedAtSend EXCEPT ![E.item] = {h \in 1..MaxH : closeDone[h]}]
                     ELSE UNCHANGED <<itemKey, gap, closedAtSend>>
                  /\ UNCHANGED <<closeStarted, closeDone, acc, delivered, vio, nsched, ndrift, keyOf>>
\* a send that failed (refused) creates no obligation
TrConnect == /\ Is("Connect")
             /\ gap' = IF ~E.ok /\ E.item >= 1 /\ E.item <= MaxItem THEN [gap EXCEPT ![E.item] = TRUE] ELSE gap
             /\ UNCHANGED <<closeStarted, closeDone, acc, delivered, vio, nsched, ndrift, keyOf, itemKey, closedAtSend>>

\* the driver has waited (seconds) for deliveries to settle; scripts are finished or parked
TrCleanupStart ==
  /\ Is("CleanupStart")
  /\ LET waitingOn(k) == \E t \in 0..MaxT : acc[t].h # 0 /\ keyOf[acc[t].h] = k /\ ~closeStarted[acc[t].h]
         lost == {i \in 1..MaxItem : itemKey[i] # 0 /\ delivered[i] = 0 /\ ~gap[i] /\ waitingOn(itemKey[i])} IN
     Flag(IF lost # {} THEN {"item-lost"} ELSE {})
  /\ UNCHANGED <<closeStarted, closeDone, acc, delivered, nsched, ndrift, keyOf, itemKey, gap, closedAtSend>>

\* client side, before the cleanup: the server has closed / reset the connection and the client has received nothing
TrClientSaw ==
  /\ Is("ClientSaw")
  /\ Flag(IF /\ E.item >= 1 /\ E.item <= MaxItem /\ E.what \in {"closed", "reset"}
             /\ itemKey[E.item] # 0 /\ delivered[E.item] = 0 /\ ~gap[E.item]
             /\ OpenOn(itemKey[E.item], closeStarted) # {}
          THEN {"dropped-while-open"} ELSE {})
  /\ UNCHANGED <<closeStarted, closeDone, acc, delivered, nsched, ndrift, keyOf, itemKey, gap, closedAtSend>>

TrAddrCheck == /\ Is("AddrCheck")
               /\ Flag(IF E.atReturn # E.sender \/ E.atEnd # E.sender THEN {"wrong-source-address"} ELSE {})
               /\ UNCHANGED <<closeStarted, closeDone, acc, delivered, nsched, ndrift, keyOf, itemKey, gap, closedAtSend>>

TrPanic == /\ Is("Panic")
           /\ Flag({"call-panicked"})
           /\ UNCHANGED <<closeStarted, closeDone, acc, delivered, nsched, ndrift, keyOf, itemKey, gap, closedAtSend>>

TrTruncated == /\ Is("Truncated")
               /\ Flag(IF E.size # E.want THEN {"datagram-truncated"} ELSE {})
               /\ UNCHANGED <<closeStarted, closeDone, acc, delivered, nsched, ndrift, keyOf, itemKey, gap, closedAtSend>>

TrOther == /\ l <= Len(Trace) /\ E.ev \in {"ListenStart", "Replayed", "End", "Free", "Churn"} /\ l' = l + 1
           /\ UNCHANGED <<closeStarted, closeDone, acc, delivered, vio, nsched, ndrift, keyOf, itemKey, gap, closedAtSend>>

Next == TrSched \/ TrListenEnd \/ TrCloseStart \/ TrCloseEnd \/ TrAcceptStart \/ TrAcceptEnd \/ TrStuck
        \/ TrRebind \/ TrItemFate \/ TrLeak \/ TrOther \/ TrConnect \/ TrConnectStart \/ TrCleanupStart \/ TrAddrCheck \/ TrPanic \/ TrTruncated \/ TrClientSaw
Spec == Init /\ [][Next]_tvars

Report == (l = Len(Trace) + 1) => PrintT(<<"RESULT", l - 1, nsched, ndrift, vio>>)
TraceAccepted == TLCGet("stats").diameter - 1 = Len(Trace)
===============================================================================
