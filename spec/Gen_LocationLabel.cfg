SPECIFICATION Spec
CONSTANTS
  PrivateIsGlobal = TRUE
  ZonedXA = TRUE
INVARIANTS RowInv
CHECK_DEADLOCK FALSE
