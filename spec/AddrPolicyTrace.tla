--------------------------- MODULE AddrPolicyTrace ---------------------------
(***************************************************************************)
(* Code -> spec.  Validates NDJSON traces recorded by harness/cmd/addrpolicy*)
(* from the real code (onet.RequirePublicIP; service.NewStreamHandler and  *)
(* service.NewPacketHandler with their DEFAULT dialer / validator, driven  *)
(* by a Shadowsocks client; sink sockets; recording metrics).              *)
(*                                                                         *)
(*  {"ev":"Dec","a":[..],"form":4|16,"rej":b,"status":s}   RequirePublicIP(a) returned s                          *)
(*  {"ev":"Tcp","id":n,"log":"info"|"debug","d":{t,k,a,z,h},"ans":[[..]..]}  (log = level of the handler's logger)   *)
(*                                                          a client asked for destination d (ans = what the fake  *)
(*                                                          DNS server serves for d.h)                             *)
(*  {"ev":"Contact","id":n,"a":[..]}                       the sink bound to address a accepted a connection of n *)
(*  {"ev":"Closed","id":n,"status":s,"echo":b}             AddClosed(s); the client got the stand-in's greeting   *)
(*  {"ev":"Udp","id":n,"log":..}                                  a new association (fresh client socket + handler)      *)
(*  {"ev":"Pkt","id":n,"pos":i,"d":{..},"ans":[..]}        i-th datagram of the association                       *)
(*  {"ev":"Sent","id":n,"pos":i,"a":[..]}                  the sink bound to a received that datagram             *)
(*  {"ev":"Rep","id":n,"pos":i,"reported":b,"status":s,"nat":b}  AddPacketFromClient(s) was (not) called; a NAT   *)
(*                                                          entry exists afterwards                                *)
(*  {"ev":"Orphan","a":[..]}                               a sink saw traffic it could not attribute              *)
(*  {"ev":"Conc","id":n,"log":..,"loops":2}                concurrent stage (AddrPolicyConc): ONE packet handler, *)
(*                                                          one Handle goroutine per listener, one client each     *)
(*  {"ev":"CSent","loop":i,"seq":k,"d":{..},"a":[..]}      the sink bound to a received datagram k of client i,   *)
(*                                                          whose own destination was d                            *)
(*                                                                         *)
(* One deterministic pass.  The state variables of AddrPolicy are driven   *)
(* by the OBSERVED events; at every event                                  *)
(*   viols  += <<line, kind>>  when the observation breaks the property    *)
(*             layer (NoPrivateContact, the status classes, TableAgrees):  *)
(*             the verdict;                                                *)
(*   drifts += line            when it is not an outcome of the mechanism  *)
(*             layer (TcpOutcomes / UdpOutcomes / CodeStatus): the spec    *)
(*             needs updating, not a verdict.                              *)
(***************************************************************************)
EXTENDS AddrPolicy, Json

Trace == ndJsonDeserialize("trace.ndjson")

VARIABLES l, viols, drifts, nscn, ans
xvars == <<l, viols, drifts, nscn, ans>>

Range(s) == {s[i] : i \in DOMAIN s}
IsEvent(e) == l <= Len(Trace) /\ Trace[l].ev = e /\ l' = l + 1
MaxRec == 400
Flag(seq, cond, item) == IF cond /\ Len(seq) < MaxRec THEN Append(seq, item) ELSE seq
\* several conditions at one line: the first that holds names the kind
Kind2(c1, k1, c2, k2) == IF c1 THEN k1 ELSE IF c2 THEN k2 ELSE ""
NoteViol(kind) == viols' = Flag(viols, kind # "", <<l, kind>>)
NoteDrift(cond) == drifts' = Flag(drifts, cond, l)

TraceInit == /\ Init /\ mode = "dec"
             /\ l = 1 /\ viols = <<>> /\ drifts = <<>> /\ nscn = 0 /\ ans = {}

(* ---- RequirePublicIP ---- *)
TrDec == /\ IsEvent("Dec")
         /\ LET a  == Trace[l].a
                inp == IF Trace[l].form = 16 /\ IsV4(a) THEN Map(a) ELSE a   \* the byte form handed to the function
                st == Trace[l].status IN
              /\ q' = inp /\ qstat' = st /\ dphase' = "done" /\ mode' = "dec" /\ loglvl' = "info"
              /\ NoteViol(Kind2(MustReject(inp) /\ st \notin AddrErr, "table-not-rejected",
                                MustAccept(inp) /\ st # "OK", "table-public-rejected"))
              /\ NoteDrift(st # CodeStatus(inp))
         /\ nscn' = nscn + 1
         /\ UNCHANGED <<tvars, uvars, tr, ans>>

(* ---- TCP ---- *)
TrTcp == /\ IsEvent("Tcp")
         /\ mode' = "tcp" /\ loglvl' = Trace[l].log /\ treq' = Trace[l].d /\ ans' = Range(Trace[l].ans)
         /\ tphase' = "dial" /\ todo' = {} /\ firstErr' = "" /\ tstatus' = "" /\ contacted' = {}
         /\ nscn' = nscn + 1
         /\ UNCHANGED <<uvars, dvars, tr, viols, drifts>>
TrContact == /\ IsEvent("Contact")
             /\ LET a == Trace[l].a IN
                  /\ contacted' = contacted \cup {a}
                  /\ NoteViol(IF MustReject(a) THEN "private-contact" ELSE "")
                  /\ NoteDrift(a \notin {c.w : c \in AllowedTcp(CandsOf(treq, ans))})
             /\ UNCHANGED <<mode, loglvl, tphase, treq, todo, firstErr, tstatus, uvars, dvars, tr, nscn, ans>>
TrClosed == /\ IsEvent("Closed")
            /\ LET C  == CandsOf(treq, ans)
                   st == Trace[l].status IN
                 /\ tstatus' = st /\ tphase' = "closed"
                 /\ NoteViol(Kind2(AllReject(C) /\ st \notin AddrErr, "private-not-rejected",
                                   AllAccept(C) /\ st \in AddrErr, "public-rejected"))
                 /\ NoteDrift(\/ ~\E o \in TcpOutcomes(C) : o[2] = st /\ o[1] \cap Sinks = contacted
                              \/ (AllAccept(C) /\ (\E c \in C : c.w \in StandIn) /\ ~Trace[l].echo))
            /\ UNCHANGED <<mode, loglvl, treq, todo, firstErr, contacted, uvars, dvars, tr, nscn, ans>>

(* ---- UDP ---- *)
TrUdp == /\ IsEvent("Udp")
         /\ mode' = "udp" /\ loglvl' = Trace[l].log /\ nat' = FALSE /\ upos' = 0 /\ ustep' = "idle" /\ ucur' = NoDest /\ ucand' = NoCand
         /\ ustat' = "" /\ sent' = {} /\ ulog' = <<>> /\ upk' = <<>> /\ ans' = {}
         /\ nscn' = nscn + 1
         /\ UNCHANGED <<tvars, dvars, tr, viols, drifts>>
TrPkt == /\ IsEvent("Pkt")
         /\ upos' = Trace[l].pos /\ ucur' = Trace[l].d /\ ans' = Range(Trace[l].ans)
         /\ upk' = Append(upk, Trace[l].d)
         /\ ustep' = IF nat THEN "known" ELSE "new"
         /\ UNCHANGED <<mode, loglvl, nat, ucand, ustat, sent, ulog, tvars, dvars, tr, viols, drifts, nscn>>
TrSent == /\ IsEvent("Sent")
          /\ LET a == Trace[l].a IN
               /\ sent' = sent \cup {<<Trace[l].pos, a>>}
               /\ NoteViol(IF MustReject(a) THEN "private-contact" ELSE "")
               /\ NoteDrift(Trace[l].pos # upos)
          /\ UNCHANGED <<mode, loglvl, nat, upos, ustep, ucur, ucand, ustat, ulog, upk, tvars, dvars, tr, nscn, ans>>
TrRep == /\ IsEvent("Rep")
         /\ LET C   == CandsOf(ucur, ans)
                st  == Trace[l].status
                rep == Trace[l].reported
                to  == {s[2] : s \in {x \in sent : x[1] = upos}} IN
              /\ nat' = Trace[l].nat
              /\ ulog' = IF rep THEN Append(ulog, <<upos, st>>) ELSE ulog
              /\ NoteViol(Kind2(AllReject(C) /\ ((rep /\ st \notin AddrErr) \/ (~nat /\ Trace[l].nat)),
                                "private-not-rejected",
                                AllAccept(C) /\ ((rep /\ st \in AddrErr) \/ (~rep /\ ~nat /\ ~Trace[l].nat)),
                                "public-rejected"))
              /\ NoteDrift(\/ rep /\ ~\E o \in UdpOutcomes(C, TRUE) : o[2] = st /\ o[1] \cap Sinks = to
                           \/ ~rep /\ Trace[l].nat
                           \/ (AllAccept(C) /\ (\E c \in C : c.w \in StandIn) /\ to = {}))
         /\ ustep' = "idle"
         /\ UNCHANGED <<mode, loglvl, upos, ucur, ucand, ustat, sent, upk, tvars, dvars, tr, nscn, ans>>

TrOrphan == /\ IsEvent("Orphan")
            /\ NoteViol(IF MustReject(Trace[l].a) THEN "private-contact" ELSE "")
            /\ UNCHANGED <<vars, drifts, nscn, ans>>

(* ---- concurrent Handle loops on one handler (AddrPolicyConc: ConcNoPrivateContact / ConcOwnDestination) ---- *)
TrConc == /\ IsEvent("Conc")
          /\ nscn' = nscn + 1
          /\ UNCHANGED <<vars, viols, drifts, ans>>
TrCSent == /\ IsEvent("CSent")
           /\ LET a == Trace[l].a IN
                /\ NoteViol(IF MustReject(a) THEN "private-contact" ELSE "")
                \* delivered somewhere else than the datagram's own destination, or a destination the code refuses
                /\ NoteDrift(a # Unmap(Trace[l].d.a) \/ CodeRejects(Trace[l].d.a))
           /\ UNCHANGED <<vars, nscn, ans>>

TraceNext == TrConc \/ TrCSent \/ TrDec \/ TrTcp \/ TrContact \/ TrClosed \/ TrUdp \/ TrPkt \/ TrSent \/ TrRep \/ TrOrphan
TraceSpec == TraceInit /\ [][TraceNext]_<<vars, xvars>>

Report == (l = Len(Trace) + 1) =>
            PrintT(<<"RESULT", ToJson([lines |-> l - 1, nscn |-> nscn, viols |-> viols, drifts |-> drifts])>>)
\* all lines consumed: one state per line plus the initial state
TraceAccepted == TLCGet("stats").diameter - 1 = Len(Trace)
===============================================================================
