\* target switches inside ONE association for the real-socket driver (see GenDgSwitch): two clients, each under its own key, no idle periods
SPECIFICATION GenSpec
CONSTANTS
  Clients = {1, 2}
  IPOf <- GenIPOf
  Keys = {1, 2}
  InitList <- GenInitList
  SaltSz <- GenSaltSz
  Senders = {1, 4, 6, 10, 11, 12, 16, 17, 18}
  Targets = {1, 4, 6, 10, 11, 12, 16, 17, 18}
  DnsPort = {}
  Allowed = {1, 4, 6, 10, 11, 12, 16, 17, 18}
  Unsendable = {}
  DisarmFirst = TRUE
  Fam <- GenFam
  DgAlpha <- GenDgSwitch
  RpAlpha <- GenRpSwitch
  MidAlpha <- NoMid
  Sync = TRUE
  T = 1
  DNST = 57
  Ticks = {}
  MaxNow = 4
  MaxDg = 14
  MaxRp = 2
  MaxAssoc = 3
  Slack = 0
  Bound = 0
  ZonedPanics = FALSE
  GenLen = 14
INVARIANTS DumpInv DumpSw
CHECK_DEADLOCK FALSE
