\* concurrent Handle loops on one packet handler: the real code (loop-local decoded target)
SPECIFICATION ConcSpec
CONSTANTS
  Modes = {"udp"}
  LogLevels = {"debug"}
  MaxPkts = 3
  ValidateKnown = TRUE
  TcpDests <- BehTcpDests
  UdpDests <- BehUdpDests
  UdpFirst <- BehUdpDests
  NPer = 2
  SharedScratch = FALSE
INVARIANTS ConcNoPrivateContact ConcOwnDestination ConcAllowedSent
VIEW ConcView
CHECK_DEADLOCK FALSE
