SPECIFICATION GSpec
CONSTANTS
  ConfigSet <- Cat
  KeyCS <- MCKeyCS
  KeyID <- MCKeyID
  Listeners <- MCListeners
  MaxLoads = 0
  ZombieOnFail = FALSE
  MaxSvcs = 2
  MaxKeys = 2
  MaxLs = 2
  MaxLegacy = 1
  GoodKeys = {1, 4, 7}
  SvcListeners <- SvcLs3
INVARIANTS DumpInv
VIEW GView
CHECK_DEADLOCK FALSE
