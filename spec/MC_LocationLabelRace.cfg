\* exhaustive: with registration + lookup as one critical section no scrape ever exports an unset location
SPECIFICATION Spec
CONSTANTS
  NI = 2
  MaxOps = 1000
  DbEnabled = TRUE
  AtomicRegister = TRUE
INVARIANTS TypeOK NoUnsetLocation OneLocationPerClient ScrapeSeesFinal
VIEW View
CHECK_DEADLOCK FALSE
