\* step-synchronous schedules, one client, 6 datagrams (valid DNS / non-DNS / wrong key on the live association), expiry and re-creation
SPECIFICATION Spec
CONSTANTS
  Clients = {1}
  IPOf <- MCIPOf
  Keys = {1, 2}
  InitList <- MCInitList
  SaltSz <- MCSaltSz
  Senders = {1, 2, 6}
  Targets = {1, 2}
  DnsPort = {2, 6}
  Allowed = {1, 2}
  Unsendable = {}
  DisarmFirst = TRUE
  Fam <- MCFam
  DgAlpha <- DgLong
  RpAlpha <- RpLong
  MidAlpha <- NoMid
  Sync = TRUE
  T = 2
  DNST = 3
  Ticks = {2}
  MaxNow = 4
  MaxDg = 6
  MaxRp = 1
  MaxAssoc = 3
  Slack = 0
  Bound = 0
  ZonedPanics = FALSE
INVARIANTS TypeOK MechNat DeadlineMonotone WriteExtends NoEarlyRemoval NoEarlyClose RemoveOnce ReclaimedInTime CloseOnce FastCloseRule Usable AllReclaimed ShutdownReclaimed OnePerClient MetricsLanguage NoCrash HandleTotal FwdAuthentic FwdToNamed FwdOnce CreateOnlyValid PktCSound PktTSound
PROPERTIES FailureIsolated
VIEW View
CHECK_DEADLOCK FALSE
