--------------------------- MODULE ReplayCacheInd ---------------------------
(***************************************************************************)
(* Unbounded-history form of C07's window property, for Apalache.          *)
(* Same cache and ghosts as ReplayCache.tla (without the behaviour history *)
(* `tr` and the operation bound), typed.  IndInv is an inductive invariant *)
(* (Init => IndInv, IndInv /\ Next => IndInv') that implies: whenever the  *)
(* property layer obliges a refusal, the hash is remembered - so the next  *)
(* Add of it returns FALSE - for ANY number of operations.                 *)
(***************************************************************************)
EXTENDS Integers, FiniteSets

CONSTANTS
  \* @type: Set(Int);
  Hashes,
  \* @type: Int;
  MaxCap

VARIABLES
  \* @type: Set(Int);
  active,
  \* @type: Set(Int);
  archive,
  \* @type: Int;
  capacity,
  \* @type: Int -> Int;
  last,
  \* @type: Int -> Int;
  mincap,
  \* @type: Int;
  nadd

CInit == Hashes = {1, 2, 3, 4, 5} /\ MaxCap = 4

Caps == 0..MaxCap
Min(a, b) == IF a < b THEN a ELSE b

Init == /\ active = {} /\ archive = {}
        /\ capacity \in Caps
        /\ last = [h \in Hashes |-> -1]
        /\ mincap = [h \in Hashes |-> 0]
        /\ nadd = 0

MustRefuse(h) == last[h] >= 0 /\ (nadd + 1 - last[h]) <= mincap[h]
Remembered(h) == h \in active \/ h \in archive

Add(h) ==
  /\ IF capacity = 0 THEN UNCHANGED <<active, archive>>
     ELSE IF h \in active THEN UNCHANGED <<active, archive>>
     ELSE LET rot == Cardinality(active) >= capacity IN
          /\ archive' = IF rot THEN active ELSE archive
          /\ active' = IF rot THEN {h} ELSE active \union {h}
  /\ UNCHANGED capacity
  /\ nadd' = nadd + 1
  /\ last' = [last EXCEPT ![h] = nadd + 1]
  /\ mincap' = [mincap EXCEPT ![h] = capacity]

Resize(n) == /\ capacity' = n
             /\ mincap' = [h \in Hashes |-> Min(mincap[h], n)]
             /\ UNCHANGED <<active, archive, last, nadd>>

Next == (\E h \in Hashes : Add(h)) \/ (\E n \in Caps : Resize(n))

\* ---- the inductive invariant ----
TypeOK == /\ active \subseteq Hashes /\ archive \subseteq Hashes
          /\ capacity \in Caps
          /\ nadd >= 0
          /\ last \in [Hashes -> Int] /\ mincap \in [Hashes -> Int]
          /\ \A h \in Hashes : last[h] >= -1 /\ last[h] <= nadd /\ mincap[h] >= 0 /\ mincap[h] <= MaxCap

\* the window a hash is owed never exceeds the capacity in force
I1 == \A h \in Hashes : mincap[h] <= capacity
\* everything remembered was presented
I2 == \A h \in active \union archive : last[h] >= 1
\* what is only in the archive was last presented before everything in the active set was inserted
I3 == \A h \in archive : h \notin active => (nadd - last[h] >= Cardinality(active) \/ mincap[h] = 0)
\* the obligation itself
I4 == \A h \in Hashes : MustRefuse(h) => Remembered(h)

IndInv == TypeOK /\ I1 /\ I2 /\ I3 /\ I4
\* an arbitrary state satisfying the invariant (symbolic: nadd and last are unbounded integers)
IndInit == /\ active \in SUBSET Hashes /\ archive \in SUBSET Hashes
           /\ capacity \in Caps
           /\ nadd \in Nat
           /\ last \in [Hashes -> Int]
           /\ mincap \in [Hashes -> Caps]
           /\ IndInv
=============================================================================
