\* C02 liveness under weak fairness, no state constraint
SPECIFICATION LiveSpec
CONSTANTS
  Conns = {1}
  HsKinds = {"valid"}
  TgtKinds = {"ok"}
  MaxC = 2
  MaxT = 2
  MaxTok = 5
  AllowBad = FALSE
  AllowSplit = FALSE
  AllowRst = FALSE
  AllowTClose = FALSE
  AllowCRst = FALSE
  AllowPause = FALSE
  Planned = FALSE
  Timeout = 2
  MaxNow = 0
  DrainMode = "inner"
  Strict = FALSE
  WithServe = FALSE
  Hist = FALSE
  SlackEarly = 0
  SlackLate = 0
  SlackSched = 0
PROPERTIES C02_Live
