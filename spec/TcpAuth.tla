------------------------------- MODULE TcpAuth -------------------------------
(***************************************************************************)
(* The TCP authenticator service/tcp.go:119-157                            *)
(* (NewShadowsocksStreamAuthenticator) and the salt generators             *)
(* service/server_salt.go, service/cipher_list.go:38-53 (MakeCipherEntry). *)
(*                                                                         *)
(* Mechanism layer, in the order of the code:                              *)
(*   Hello(c,k,t)     the client's opening bytes: valid under key k of the *)
(*                    list (0 = under none) with salt token t              *)
(*   FindKey(c)       tcp.go:126-131  findAccessKey, ERR_CIPHER            *)
(*   CheckSalt(c)     tcp.go:139      SaltGenerator.IsServerSalt FIRST     *)
(*   CheckReplay(c)   tcp.go:141      replayCache.Add only if not server   *)
(*                                    salt; nil / capacity 0 = always new  *)
(*   FirstWrite(c)    tcp.go:152-154 + SDK stream.go:79-101  the response  *)
(*                    writer draws its salt from the ENTRY's generator     *)
(*   EntropyFails(c)  the entropy source fails while the salt is drawn:    *)
(*                    GetSalt returns the error, no response stream        *)
(*   Absorb(c)        tcp.go:342-346, 373-379  probe handling              *)
(* Salts are tokens 1,2,3..; salts[t] says who made token t and - for a    *)
(* salt made by a marking generator - for which secret it is marked        *)
(* (server_salt.go:71-120: HMAC-SHA1 key derived from the secret only, so  *)
(* two entries with one secret recognise each other's salts).              *)
(* A generator marks iff saltSize - 4 >= 16 (cipher_list.go:26,41): 32- and *)
(* 24-byte salts; AES-128's 16-byte salts are plain random.                *)
(*                                                                         *)
(* Property layer (C08; status classes also serve C01):                    *)
(*   RespSaltsFresh, RespSaltsRecognised, ReflectedNeverAuthenticated,     *)
(*   StatusClasses, ProbeNoEffect                                          *)
(***************************************************************************)
EXTENDS Integers, Sequences, FiniteSets, TLC

CONSTANTS Keys,        \* the key list in search order: sequence of [name, cls, sec]
          Conns,       \* connection ids
          CacheModes,  \* subset of {"nil", "zero", "on"}: replay cache absent / capacity 0 / remembering
          MaxSalt,     \* bound on salt tokens
          MaxInFlight, \* connections between Hello and the end of authentication at the same time
          Faults       \* TRUE: the system's entropy source may fail while a response salt is drawn

Classes  == 1..4
SaltSize == <<32, 32, 24, 16>>
MarkLen  == 4
MinSaltEntropy == 16
Marking(cls) == SaltSize[cls] - MarkLen >= MinSaltEntropy      \* cipher_list.go:41

VARIABLES cache,   \* replay cache mode of this run
          seen,    \* handshakes <<name, salt>> the replay cache remembers (mode "on")
          salts,   \* token -> [by, size, sec, marked]
          conn,    \* connection -> state
          tr

vars == <<cache, seen, salts, conn, tr>>

Idle == [ph |-> "idle", k |-> 0, t |-> 0, m |-> 0, st |-> "", resp |-> 0, dial |-> FALSE, wrote |-> FALSE]

(* ---------------------------------------------------------------- mechanism *)
\* tcp.go:98-113: first entry with the client's cipher and secret (0 = none)
Match(k) == IF k = 0 THEN 0
            ELSE LET H == {i \in 1..Len(Keys) : Keys[i].cls = Keys[k].cls /\ Keys[i].sec = Keys[k].sec}
                 IN CHOOSE i \in H : \A j \in H : i <= j

\* server_salt.go:113-120 for a marking generator keyed from `sec`; randomServerSaltGenerator never recognises
\* (a client-made salt carries a valid mark only with probability 2^-32: assumption)
IsServerSalt(m, t) == /\ Marking(Keys[m].cls)
                      /\ salts[t].by = "server" /\ salts[t].marked
                      /\ salts[t].sec = Keys[m].sec
                      /\ salts[t].size = SaltSize[Keys[m].cls]

InCache(m, t) == cache = "on" /\ <<Keys[m].name, t>> \in seen

\* the whole decision of tcp.go:126-150 for an opener valid under key k with salt t, in the order of the code
AuthOutcome(k, t) == LET m == Match(k) IN
                       IF m = 0 THEN "ERR_CIPHER"
                       ELSE IF IsServerSalt(m, t) THEN "ERR_REPLAY_SERVER"
                       ELSE IF InCache(m, t) THEN "ERR_REPLAY_CLIENT"
                       ELSE "OK"

InFlight == Cardinality({c \in Conns : conn[c].ph \in {"hello", "keyfound", "saltok"}})

\* a client may present any salt of the right size: a new one, one it (or another client) used before, or one it
\* saw at the head of a server response
HelloCore(c, k, t) ==
  /\ conn[c].ph = "idle"
  /\ IF k = 0 THEN t = 0 /\ UNCHANGED salts
     ELSE \/ /\ t = Len(salts) + 1 /\ t <= MaxSalt
             /\ salts' = Append(salts, [by |-> "client", size |-> SaltSize[Keys[k].cls], sec |-> 0, marked |-> FALSE])
          \/ /\ t \in 1..Len(salts) /\ salts[t].size = SaltSize[Keys[k].cls]
             /\ UNCHANGED salts
  /\ conn' = [conn EXCEPT ![c] = [Idle EXCEPT !.ph = "hello", !.k = k, !.t = t]]
  /\ UNCHANGED <<cache, seen>>

Refuse(c, st) == conn' = [conn EXCEPT ![c] = [@ EXCEPT !.ph = "probe", !.st = st]]

FindKeyCore(c) ==
  /\ conn[c].ph = "hello"
  /\ LET m == Match(conn[c].k) IN
       IF m = 0 THEN Refuse(c, "ERR_CIPHER")
       ELSE conn' = [conn EXCEPT ![c] = [@ EXCEPT !.ph = "keyfound", !.m = m]]
  /\ UNCHANGED <<cache, seen, salts>>

CheckSaltCore(c) ==
  /\ conn[c].ph = "keyfound"
  /\ IF IsServerSalt(conn[c].m, conn[c].t) THEN Refuse(c, "ERR_REPLAY_SERVER")
     ELSE conn' = [conn EXCEPT ![c] = [@ EXCEPT !.ph = "saltok"]]
  /\ UNCHANGED <<cache, seen, salts>>

\* replay.go:83-103 as one atomic step (its own window arithmetic is ReplayCache.tla / C07)
CheckReplayCore(c) ==
  /\ conn[c].ph = "saltok"
  /\ IF InCache(conn[c].m, conn[c].t)
     THEN Refuse(c, "ERR_REPLAY_CLIENT") /\ UNCHANGED seen
     ELSE /\ conn' = [conn EXCEPT ![c] = [@ EXCEPT !.ph = "authed", !.st = "OK"]]
          /\ seen' = IF cache = "on" THEN seen \cup {<<Keys[conn[c].m].name, conn[c].t>>} ELSE seen
  /\ UNCHANGED <<cache, salts>>

\* the first Write of the response: a salt from the matched entry's generator, never seen before
FirstWriteCore(c) ==
  /\ conn[c].ph = "authed"
  /\ Len(salts) < MaxSalt
  /\ LET cls == Keys[conn[c].m].cls IN
       salts' = Append(salts, [by |-> "server", size |-> SaltSize[cls], sec |-> Keys[conn[c].m].sec,
                               marked |-> Marking(cls)])
  /\ conn' = [conn EXCEPT ![c] = [@ EXCEPT !.ph = "served", !.resp = Len(salts) + 1, !.dial = TRUE, !.wrote = TRUE]]
  /\ UNCHANGED <<cache, seen>>

\* crypto/rand fails while the generator draws the salt (server_salt.go:43-46, 101-107; SDK stream.go:82-85): GetSalt
\* returns the error, the first Write fails, NO response stream is produced.  The only other outcome of a first write
\* is FirstWrite's fresh salt - a salt completed without fresh randomness is not a behaviour of this specification.
EntropyFailsCore(c) ==
  /\ Faults
  /\ conn[c].ph = "authed"
  /\ conn' = [conn EXCEPT ![c] = [@ EXCEPT !.ph = "noresp", !.dial = TRUE]]
  /\ UNCHANGED <<cache, seen, salts>>

\* drain until the client closes or the deadline, AddProbe, AddClosed(status), close: nothing else
AbsorbCore(c) ==
  /\ conn[c].ph = "probe"
  /\ conn' = [conn EXCEPT ![c] = [@ EXCEPT !.ph = "closed"]]
  /\ UNCHANGED <<cache, seen, salts>>

(* ---------------------------------------------------------------- behaviours *)
Hello(c, k, t) == /\ InFlight < MaxInFlight /\ HelloCore(c, k, t)
                  /\ tr' = Append(tr, [a |-> "Hello", c |-> c, k |-> k, t |-> t,
                                       src |-> IF k = 0 THEN "none" ELSE IF t > Len(salts) THEN "fresh"
                                               ELSE salts[t].by])
FindKey(c)     == FindKeyCore(c)     /\ tr' = Append(tr, [a |-> "FindKey", c |-> c, m |-> conn'[c].m])
CheckSalt(c)   == CheckSaltCore(c)   /\ tr' = Append(tr, [a |-> "CheckSalt", c |-> c, st |-> conn'[c].st])
CheckReplay(c) == CheckReplayCore(c) /\ tr' = Append(tr, [a |-> "CheckReplay", c |-> c, st |-> conn'[c].st])
FirstWrite(c)  == FirstWriteCore(c)  /\ tr' = Append(tr, [a |-> "FirstWrite", c |-> c, resp |-> conn'[c].resp])
Absorb(c)      == AbsorbCore(c)      /\ tr' = Append(tr, [a |-> "Absorb", c |-> c, st |-> conn[c].st])
EntropyFails(c) == EntropyFailsCore(c) /\ tr' = Append(tr, [a |-> "EntropyFails", c |-> c])

Init == /\ cache \in CacheModes
        /\ seen = {} /\ salts = <<>>
        /\ conn = [c \in Conns |-> Idle]
        /\ tr = << [a |-> "New", cache |-> cache] >>

Next == \E c \in Conns :
          \/ \E k \in 0..Len(Keys), t \in 0..MaxSalt : Hello(c, k, t)
          \/ FindKey(c) \/ CheckSalt(c) \/ CheckReplay(c) \/ FirstWrite(c) \/ EntropyFails(c) \/ Absorb(c)

Spec == Init /\ [][Next]_vars

(* ---------------------------------------------------------------- property layer (C08) *)
Responded == {c \in Conns : conn[c].resp # 0}
Authenticated(c) == conn[c].ph \in {"authed", "served", "noresp"}

\* every response starts with a salt that is new: no other response and no earlier handshake carries it
RespSaltsFresh ==
  /\ \A c, d \in Responded : c # d => conn[c].resp # conn[d].resp
  /\ \A c \in Responded : salts[conn[c].resp].by = "server"

\* ... and that the server recognises as its own for that key (salts of at least 20 bytes)
RespSaltsRecognised ==
  \A c \in Responded : SaltSize[Keys[conn[c].m].cls] >= 20 => IsServerSalt(conn[c].m, conn[c].resp)

\* what "server-issued for the matched key" means, in terms of the history only
ServerIssuedFor(m, t) == /\ t # 0 /\ salts[t].by = "server" /\ salts[t].marked
                         /\ salts[t].sec = Keys[m].sec /\ salts[t].size = SaltSize[Keys[m].cls]

\* a reflected handshake never authenticates, whatever the replay cache
ReflectedNeverAuthenticated ==
  \A c \in Conns : (Authenticated(c) /\ SaltSize[Keys[conn[c].m].cls] >= 20) => ~ServerIssuedFor(conn[c].m, conn[c].t)

\* the status classes
StatusClasses ==
  \A c \in Conns : conn[c].ph \in {"probe", "closed", "authed", "served", "noresp"} =>
     LET m == Match(conn[c].k) IN
       /\ (conn[c].st = "ERR_CIPHER") <=> (m = 0)
       /\ (conn[c].st = "ERR_REPLAY_SERVER") <=> (m # 0 /\ ServerIssuedFor(m, conn[c].t) /\ Marking(Keys[m].cls))
       /\ (conn[c].st = "ERR_REPLAY_CLIENT") => (m # 0 /\ cache = "on" /\ <<Keys[m].name, conn[c].t>> \in seen)
       /\ (conn[c].st = "OK") => m # 0

\* refused = handled like an invalid probe: no dial, nothing written
ProbeNoEffect == \A c \in Conns : (conn[c].dial \/ conn[c].wrote \/ conn[c].resp # 0) => conn[c].st = "OK"

TypeOK == /\ cache \in {"nil", "zero", "on"}
          /\ Len(salts) <= MaxSalt
          /\ \A c \in Conns : conn[c].ph \in {"idle", "hello", "keyfound", "saltok", "authed", "served", "noresp", "probe", "closed"}

View == <<cache, seen, salts, conn>>
===============================================================================
