SPECIFICATION GenSpec
CONSTANTS
  NK = 3
  NST = 3
  NL = 3
  NSU = 2
  EmptyKey = 2
  MaxConn = 10
  MaxOps = 40
  Amounts = {0, 1, 7, 1400}
  Counts = {1, 2, 5}
INVARIANTS DumpInv
CHECK_DEADLOCK FALSE
