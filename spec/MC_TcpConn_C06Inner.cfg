\* the code as written (tcp.go:307): TLC must find the early half-close (model finding, reproduced on the code by c06)
SPECIFICATION Spec
CONSTANTS
  Conns = {1}
  HsKinds = {"valid"}
  TgtKinds = {"ok"}
  MaxC = 1
  MaxT = 1
  MaxTok = 5
  AllowBad = TRUE
  AllowSplit = FALSE
  AllowRst = FALSE
  AllowTClose = FALSE
  AllowCRst = FALSE
  Planned = FALSE
  Timeout = 2
  MaxNow = 0
  DrainMode = "inner"
  Strict = FALSE
  WithServe = FALSE
  Hist = FALSE
  SlackEarly = 0
  SlackLate = 0
  SlackSched = 0
INVARIANTS Inv_C06Drain
VIEW View
