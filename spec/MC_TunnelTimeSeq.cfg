\* exhaustive, code AS IT IS, but nothing runs inside a scrape (sequential histories): mechanism => property must hold
SPECIFICATION Spec
CONSTANTS
  NI = 2
  NK = 2
  NL = 2
  MaxConn = 3
  MaxClock = 2
  TickSet = {1, 2}
  NS = 1
  MaxOps = 0
  ClockUnderLock = FALSE
  Interleave = FALSE
  WithTraffic = TRUE
  WithUnknownStop = TRUE
  Forms = {1}
  LocMaps <- CanonLocMaps
INVARIANTS TypeOK NonNegativeIncrement InWindowKey InWindowLoc LocSumEqKeySum Conservation RefCountMatches StartNotInFuture SeqExact
PROPERTIES Monotone
VIEW View
CHECK_DEADLOCK FALSE
