-------------------------- MODULE MetricsCountTrace --------------------------
(***************************************************************************)
(* Code -> spec.  Traces recorded from the REAL collectors of              *)
(* prometheus.NewServiceMetrics (harness/overlay/prometheus/               *)
(* zz_verif_metricscount_test.go): the calls made (sequentially, or a      *)
(* serialisation of concurrent callers - additions commute) and what       *)
(* Registry.Gather exported.                                               *)
(*   {"ev":"Reset"}  fresh collector                                       *)
(*   {"ev":"Open","c"} {"ev":"Auth","c","key"} {"ev":"Probe","c","b"}      *)
(*   {"ev":"Close","c","st","d":[cp,pt,tp,pc]}                             *)
(*   {"ev":"NatAdd","c","key"} {"ev":"PktC","c","st","n","cp","pt"}        *)
(*   {"ev":"PktT","c","n","tp","pc"} {"ev":"NatRemove","c"}                *)
(*   {"ev":"Decreased","n"}  a counter went down between two scrapes       *)
(*   {"ev":"Scrape","obs":{opened, closed[s][k+1], durn[s], tbytes[k+1][d],*)
(*        proben, probeb, natadd, natrem, upkts[s], ubytes[k+1][d],        *)
(*        openedl[x], closedl[x], tlocb[x][d], upktsl[x][s], ulocb[x][d],  *)
(*        other}}   x = location class of the client (by construction)     *)
(* viols: per trace the first scrape whose exported values contradict the  *)
(* property layer (sums of the per-connection facts of the call history).  *)
(* The mechanism layer of MetricsCount has the same totals by construction *)
(* (checked exhaustively by TLC), so there is no separate drift here.      *)
(***************************************************************************)
EXTENDS MetricsCount, Json
Trace == ndJsonDeserialize("trace.ndjson")
VARIABLES l, viols, tv, ntraces
tvars == <<l, viols, tv, ntraces>>
IsEvent(e) == l <= Len(Trace) /\ Trace[l].ev = e /\ l' = l + 1
Keep == UNCHANGED <<viols, tv, ntraces, shown, nops, tr>>

TraceInit == Init /\ l = 1 /\ viols = <<>> /\ tv = FALSE /\ ntraces = 0

TrReset == /\ IsEvent("Reset")
           /\ conn' = [c \in Conns |-> [kind |-> "none", st |-> "none"]]
           /\ rem' = [c \in Conns |-> 0] /\ cloc' = [c \in Conns |-> 0] /\ nconn' = 0
           /\ openedL' = [x \in Locs |-> 0] /\ closedL' = [x \in Locs |-> 0] /\ tcpBytesL' = [x \in Locs |-> Zero4]
           /\ udpPktsL' = [x \in Locs |-> [s \in 1..NSU |-> 0]] /\ udpBytesL' = [x \in Locs |-> Zero4]
           /\ opened' = 0 /\ closedCnt' = [s \in 1..NST |-> [k \in Keys0 |-> 0]]
           /\ tcpBytes' = [k \in Keys0 |-> Zero4] /\ probeCnt' = 0 /\ probeSum' = 0
           /\ natAdded' = 0 /\ natRemoved' = 0 /\ udpPkts' = [s \in 1..NSU |-> 0]
           /\ udpBytes' = [k \in Keys0 |-> Zero4]
           /\ gkey' = [c \in Conns |-> 0] /\ gst' = [c \in Conns |-> 0] /\ gdata' = [c \in Conns |-> Zero4]
           /\ gprobeN' = [c \in Conns |-> 0] /\ gprobeB' = [c \in Conns |-> 0]
           /\ gpkN' = [c \in Conns |-> [s \in 1..NSU |-> 0]] /\ gpkB' = [c \in Conns |-> Zero4]
           /\ ntraces' = ntraces + 1 /\ tv' = FALSE
           /\ UNCHANGED <<viols, shown, nops, tr>>

D4(q) == [x \in Dirs |-> q[x]]
TrOpen   == IsEvent("Open")   /\ OpenCore(Trace[l].c, Trace[l].loc) /\ Keep
TrAuth   == IsEvent("Auth")   /\ AuthCore(Trace[l].c, Trace[l].key) /\ Keep
TrProbe  == IsEvent("Probe")  /\ ProbeCore(Trace[l].c, Trace[l].b) /\ Keep
TrClose  == IsEvent("Close")  /\ CloseCore(Trace[l].c, Trace[l].st, D4(Trace[l].d)) /\ Keep
TrNatAdd == IsEvent("NatAdd") /\ NatAddCore(Trace[l].c, Trace[l].key, Trace[l].loc) /\ Keep
TrPktC   == IsEvent("PktC")   /\ PktCCore(Trace[l].c, Trace[l].st, Trace[l].n, Trace[l].cp, Trace[l].pt) /\ Keep
TrPktT   == IsEvent("PktT")   /\ PktTCore(Trace[l].c, Trace[l].n, Trace[l].tp, Trace[l].pc) /\ Keep
TrNatRemove == IsEvent("NatRemove") /\ NatRemoveCore(Trace[l].c) /\ Keep

Flag(k) == /\ viols' = IF ~tv /\ k # "" THEN Append(viols, [line |-> l, kind |-> k]) ELSE viols
           /\ tv' = (tv \/ k # "")
TrDecreased == /\ IsEvent("Decreased") /\ Flag("counter-decreased")
               /\ UNCHANGED <<conn, rem, cloc, nconn, mech, ghost, ntraces, shown, nops, tr>>

RECURSIVE SumSeq(_, _)
SumSeq(q, n) == IF n = 0 THEN 0 ELSE q[n] + SumSeq(q, n - 1)

TrScrape ==
    /\ IsEvent("Scrape")
    /\ LET o == Trace[l].obs
           closedSum == SumF([s \in 1..NST |-> SumSeq(o.closed[s], NK + 1)], 1..NST)
           pv == IF o.other # 0 THEN "unexpected-series"
                 ELSE IF o.opened # IdealOpened THEN "tcp-opened-mismatch"
                 ELSE IF \E s \in 1..NST, k \in Keys0 : o.closed[s][k + 1] # IdealClosed[s][k] THEN "tcp-closed-mismatch"
                 ELSE IF \E s \in 1..NST : o.durn[s] # SumSeq(o.closed[s], NK + 1) THEN "tcp-duration-count-mismatch"
                 ELSE IF AllTcpClosed /\ o.opened # closedSum THEN "tcp-opened-ne-closed"
                 ELSE IF \E k \in Keys0, d \in Dirs : o.tbytes[k + 1][d] # IdealTcpBytes[k][d] THEN "tcp-bytes-mismatch"
                 ELSE IF o.proben # IdealProbeN \/ o.probeb # IdealProbeB THEN "tcp-probes-mismatch"
                 ELSE IF o.natadd # IdealNatAdded \/ o.natrem # IdealNatRemoved THEN "udp-nat-count-mismatch"
                 ELSE IF \E s \in 1..NSU : o.upkts[s] # IdealUdpPkts[s] THEN "udp-packets-mismatch"
                 ELSE IF \E k \in Keys0, d \in Dirs : o.ubytes[k + 1][d] # IdealUdpBytes[k][d] THEN "udp-bytes-mismatch"
                 ELSE IF \E x \in Locs : o.openedl[x] # IdealOpenedL[x] \/ o.closedl[x] # IdealClosedL[x] THEN "tcp-location-mismatch"
                 ELSE IF \E x \in Locs, d \in Dirs : o.tlocb[x][d] # IdealTcpBytesL[x][d] THEN "tcp-location-bytes-mismatch"
                 ELSE IF \E x \in Locs, s \in 1..NSU : o.upktsl[x][s] # IdealUdpPktsL[x][s] THEN "udp-location-packets-mismatch"
                 ELSE IF \E x \in Locs, d \in Dirs : o.ulocb[x][d] # IdealUdpBytesL[x][d] THEN "udp-location-bytes-mismatch"
                 ELSE "" IN
         Flag(pv)
    /\ UNCHANGED <<conn, rem, cloc, nconn, mech, ghost, ntraces, shown, nops, tr>>

TraceNext == TrReset \/ TrOpen \/ TrAuth \/ TrProbe \/ TrClose \/ TrNatAdd \/ TrPktC \/ TrPktT \/ TrNatRemove
             \/ TrDecreased \/ TrScrape
TraceSpec == TraceInit /\ [][TraceNext]_<<vars, tvars>>
Report == (l = Len(Trace) + 1) =>
            PrintT(<<"RESULT", ToJson([lines |-> l - 1, ntraces |-> ntraces, viols |-> viols])>>)
TraceAccepted == TLCGet("stats").diameter - 1 = Len(Trace)
===============================================================================
