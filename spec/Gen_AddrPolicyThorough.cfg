\* behaviour generation, thorough tier: wider first datagram, associations of <= 4 datagrams
SPECIFICATION GenSpec
CONSTANTS
  Modes = {"tcp", "udp"}
  LogLevels = {"info", "debug"}
  MaxPkts = 4
  ValidateKnown = TRUE
  TcpDests <- BehTcpDests
  UdpDests <- BehUdpDests
  UdpFirst <- BehUdpDestsWide
INVARIANTS DumpInv
CHECK_DEADLOCK FALSE
