-------------------------------- MODULE Reload --------------------------------
(***************************************************************************)
(* cmd/outline-ss-server/main.go: loadConfig / runConfig / Stop over the   *)
(* shared listener manager, one process-wide replay history.               *)
(*                                                                         *)
(* A configuration is a record                                             *)
(*   [kind   |-> "ok" | "unreadable" | "malformed" | "invalid",            *)
(*    legacy |-> sequence of <<port-address, key>>,                        *)
(*    svcs   |-> sequence of [ks |-> sequence of keys,                     *)
(*                            ls |-> sequence of <<proto, address>>]]      *)
(* Keys are indices into KeyCS (cipher+secret class; 0 = unusable cipher)  *)
(* and KeyID (configured id).  runConfig processes the configuration as a  *)
(* flat sequence of steps (main.go:188-284); each step can fail:           *)
(*   <<"lkeys">>            all legacy keys are built first  (:198-211)    *)
(*   <<"lacq", p, a>>       legacy port: tcp then udp        (:212-241)    *)
(*   <<"keys", i>>          cipher list of service i         (:245-248)    *)
(*   <<"acq", i, p, a>>     listener of service i            (:259-275)    *)
(* A generation is what a (possibly partial) run of these steps left       *)
(* behind: handles on <<proto, address>> each serving a key list.          *)
(*                                                                         *)
(* Variant flag ZombieOnFail: TRUE = pinned code (a failed start leaves    *)
(* the partially started generation running: main.go:286-291 returns the   *)
(* error but the goroutine keeps waiting on stopCh); FALSE = repaired.     *)
(***************************************************************************)
EXTENDS Integers, Sequences, FiniteSets, TLC

CONSTANTS ConfigSet,      \* catalogue: set of configuration records
          KeyCS, KeyID,   \* key index -> cipher+secret class (0 = bad cipher), configured id
          Listeners,      \* universe of <<proto, address>>
          MaxLoads,       \* number of load attempts per behaviour
          ZombieOnFail

VARIABLES gens,       \* sequence of generations [cfg, st \in {"live","zombie","stopped"}, hs: set of [l, ks]]
          cur,        \* index of the generation whose stop function the server holds (0 = none)
          lastGood,   \* the last configuration that loaded (NoCfg = none)
          phase,      \* "idle" | "window" (new generation started, old not yet stopped)
          pend,       \* configuration being loaded in the window
          foreign,    \* listeners currently held by foreign sockets (fault injection)
          nloads, tr

vars == <<gens, cur, lastGood, phase, pend, foreign, nloads, tr>>

NoCfg == [kind |-> "none", legacy |-> <<>>, svcs |-> <<>>]

(* ---------------------------- configuration semantics ---------------------------- *)
\* keys of a service after de-duplication: first id wins for equal cipher+secret (main.go:95-120)
RECURSIVE Dedup(_, _)
Dedup(ks, seen) == IF ks = <<>> THEN <<>>
                   ELSE IF KeyCS[Head(ks)] \in seen THEN Dedup(Tail(ks), seen)
                   ELSE <<Head(ks)>> \o Dedup(Tail(ks), seen \cup {KeyCS[Head(ks)]})

SeqToSet(s) == {s[i] : i \in 1..Len(s)}
LegacyPorts(c) == {c.legacy[i][1] : i \in 1..Len(c.legacy)}
LegacyKeysOf(c, a) == LET idx == {i \in 1..Len(c.legacy) : c.legacy[i][1] = a} IN
                      {c.legacy[i][2] : i \in idx}

\* flat step list of runConfig
RECURSIVE SvcSteps(_, _)
SvcSteps(c, i) == IF i > Len(c.svcs) THEN <<>>
                  ELSE <<<<"keys", i>>>> \o [j \in 1..Len(c.svcs[i].ls) |-> <<"acq", i, c.svcs[i].ls[j][1], c.svcs[i].ls[j][2]>>]
                       \o SvcSteps(c, i + 1)
\* legacy ports in a fixed order (the code iterates a map; the order is not observable in the properties)
RECURSIVE LegacySteps(_, _)
LegacySteps(c, ports) == IF ports = {} THEN <<>>
                         ELSE LET a == CHOOSE x \in ports : \A y \in ports : x <= y IN
                              <<<<"lacq", "tcp", a>>, <<"lacq", "udp", a>>>> \o LegacySteps(c, ports \ {a})
Steps(c) == (IF Len(c.legacy) > 0 THEN <<<<"lkeys">>>> ELSE <<>>) \o LegacySteps(c, LegacyPorts(c)) \o SvcSteps(c, 1)

\* Address ids 14 ("0.0.0.0:port") and 15 ("[::]:port") are other spellings of the wildcard address of legacy port 4
\* (":port"): different strings for Config.Validate and for the listener manager's books, the same socket for the kernel -
\* binding one while another is held fails.
Sock(l) == <<l[1], IF l[2] \in {14, 15} THEN 4 ELSE l[2]>>
SockHeld(l, held) == \E x \in held : Sock(x) = Sock(l)

StepFails(c, s, held, frn) ==
  CASE s[1] = "lkeys" -> \E i \in 1..Len(c.legacy) : KeyCS[c.legacy[i][2]] = 0
    [] s[1] = "keys"  -> \E k \in SeqToSet(c.svcs[s[2]].ks) : KeyCS[k] = 0
    [] s[1] = "lacq"  -> <<s[2], s[3]>> \in frn \/ SockHeld(<<s[2], s[3]>>, held)       \* bind failure / listenerSet duplicate
    [] s[1] = "acq"   -> <<s[3], s[4]>> \in frn \/ SockHeld(<<s[3], s[4]>>, held)

StepHandle(c, s) ==
  CASE s[1] = "lacq" -> {[l |-> <<s[2], s[3]>>, ks |-> LegacyKeysOf(c, s[3])]}
    [] s[1] = "acq"  -> {[l |-> <<s[3], s[4]>>, ks |-> SeqToSet(Dedup(c.svcs[s[2]].ks, {}))]}
    [] OTHER -> {}

\* run the steps from index n with the handles acquired so far; result [ok, hs, failedAt]
RECURSIVE Run(_, _, _, _)
Run(c, n, hs, frn) ==
  LET ss == Steps(c) IN
  IF n > Len(ss) THEN [ok |-> TRUE, hs |-> hs, failedAt |-> 0]
  ELSE IF StepFails(c, ss[n], {h.l : h \in hs}, frn) THEN [ok |-> FALSE, hs |-> hs, failedAt |-> n]
  ELSE Run(c, n + 1, hs \cup StepHandle(c, ss[n]), frn)

\* what a set of handles serves: <<proto, address, cipher+secret class, id>>
ServingOf(hs) == UNION {{<<h.l[1], h.l[2], KeyCS[k], KeyID[k]>> : k \in h.ks} : h \in hs}
\* property layer: what a configuration promises (C09)
Serving(c) == IF c = NoCfg THEN {} ELSE ServingOf(Run(c, 1, {}, {}).hs)
ListeningOf(c) == IF c = NoCfg THEN {} ELSE {h.l : h \in Run(c, 1, {}, {}).hs}

(* ---------------------------------- mechanism ---------------------------------- *)
(* Config.Validate (config.go:59-84), transcribed: every service listener must have type tcp or udp, an address of the
   form IP:port, and no (type, address) may occur twice in the whole configuration.  Address ids >= 10 stand for
   malformed address strings (11 "localhost:port": host is not an IP; 12 "127.0.0.1": no port; 13 ":port": empty host).
   Legacy keys are not validated. *)
AllSvcListeners(c) == UNION {{<<i, j>> : j \in 1..Len(c.svcs[i].ls)} : i \in 1..Len(c.svcs)}
LnAt(c, x) == c.svcs[x[1]].ls[x[2]]
ValidCfg(c) == /\ \A x \in AllSvcListeners(c) : LnAt(c, x)[1] \in {"tcp", "udp"} /\ LnAt(c, x)[2] \notin {11, 12, 13}
               /\ \A x, y \in AllSvcListeners(c) : x # y => LnAt(c, x) # LnAt(c, y)
Loadable(c) == c.kind = "ok" /\ ValidCfg(c)

Init == /\ gens = <<>> /\ cur = 0 /\ lastGood = NoCfg /\ phase = "idle" /\ pend = NoCfg
        /\ foreign = {} /\ nloads = 0
        /\ tr = <<>>

LiveGens == {g \in 1..Len(gens) : gens[g].st \in {"live", "zombie"}}
LiveServing == UNION {ServingOf(gens[g].hs) : g \in LiveGens}
LiveListening == UNION {{h.l : h \in gens[g].hs} : g \in LiveGens}
Runners == Cardinality(LiveGens)     \* goroutines parked in runConfig

\* loadConfig that fails before runConfig (read / parse / validate): nothing changes  (main.go:69-79)
LoadEarlyFail(ci) == /\ phase = "idle" /\ nloads < MaxLoads
                     /\ ~Loadable(ci)
                     /\ nloads' = nloads + 1
                     /\ tr' = Append(tr, [a |-> "Load", cfg |-> ci, frn |-> {}, ok |-> FALSE, failedAt |-> 0 - 1,
                                          serving |-> Serving(lastGood), listening |-> ListeningOf(lastGood)])
                     /\ UNCHANGED <<gens, cur, lastGood, phase, pend, foreign>>

\* runConfig: start the new generation (main.go:81-84); frn = listeners a foreign socket holds during this load
StartNew(ci, frn) ==
  /\ phase = "idle" /\ nloads < MaxLoads
  /\ Loadable(ci)
  /\ frn \subseteq (Listeners \ LiveListening)        \* a foreign socket can only hold what the server does not
  /\ LET r == Run(ci, 1, {}, frn) IN
     /\ nloads' = nloads + 1
     /\ foreign' = frn
     /\ IF r.ok
        THEN /\ gens' = Append(gens, [cfg |-> ci, st |-> "live", hs |-> r.hs])
             /\ phase' = "window" /\ pend' = ci
             /\ UNCHANGED <<cur, lastGood>>
             /\ tr' = Append(tr, [a |-> "Load", cfg |-> ci, frn |-> frn, ok |-> TRUE, failedAt |-> 0,
                                  serving |-> Serving(lastGood), listening |-> ListeningOf(lastGood)])
        ELSE /\ gens' = IF ZombieOnFail /\ r.hs # {}
                        THEN Append(gens, [cfg |-> ci, st |-> "zombie", hs |-> r.hs])
                        ELSE gens
             /\ UNCHANGED <<cur, lastGood, phase, pend>>
             /\ tr' = Append(tr, [a |-> "Load", cfg |-> ci, frn |-> frn, ok |-> FALSE, failedAt |-> r.failedAt,
                                  serving |-> Serving(lastGood), listening |-> ListeningOf(lastGood)])

\* Stop(old) and commit (main.go:85-91)
StopOld == /\ phase = "window"
           /\ gens' = IF cur = 0 THEN gens ELSE [gens EXCEPT ![cur].st = "stopped"]
           /\ cur' = Len(gens)
           /\ lastGood' = pend
           /\ phase' = "idle" /\ pend' = NoCfg
           /\ tr' = Append(tr, [a |-> "Stopped", serving |-> Serving(pend), listening |-> ListeningOf(pend)])
           /\ UNCHANGED <<foreign, nloads>>

Next == \/ \E ci \in ConfigSet : LoadEarlyFail(ci)
        \/ \E ci \in ConfigSet : \E frn \in SUBSET Listeners : Cardinality(frn) <= 1 /\ StartNew(ci, frn)
        \/ StopOld

Spec == Init /\ [][Next]_vars

(* ---------------------------------- properties ---------------------------------- *)
\* C10: at every quiescent point exactly the last good configuration serves and listens, nothing else runs
AllOrNothing == phase = "idle" =>
                  /\ LiveServing = Serving(lastGood)
                  /\ LiveListening = ListeningOf(lastGood)
                  /\ Runners = IF lastGood = NoCfg THEN 0 ELSE 1
\* C11: in the hand-over window every listener of both configurations is held, and keys common to both serve
WindowKeepsBoth == phase = "window" =>
                  /\ ListeningOf(lastGood) \subseteq LiveListening
                  /\ ListeningOf(pend) \subseteq LiveListening
                  /\ (Serving(lastGood) \cap Serving(pend)) \subseteq LiveServing

\* C14 at the level of the server: the NAT timeout is a property of the process (-udptimeout), not of a configuration
\* format; an association opened by one datagram at time 0 is reported removed at some time in [timeout, timeout + slack]
NatLifeOK(ms, timeout, slack) == ms >= timeout /\ ms <= timeout + slack

View == <<gens, cur, lastGood, phase, pend, foreign, nloads>>
===============================================================================
