\* NEGATIVE configuration (anti-vacuity): the mechanism WITHOUT 100.64.0.0/10 in its private list.  TLC must report a
\* violation of TableAgrees / NoPrivateContact; the check fails as inconclusive if it does not.
SPECIFICATION Spec
CONSTANTS
  Modes = {"tcp", "udp", "dec"}
  LogLevels = {"info"}
  MaxPkts = 2
  ValidateKnown = TRUE
  TcpDests <- BehTcpDests
  UdpDests <- BehUdpDests
  UdpFirst <- BehUdpDests
  PrivateNets <- PrivateNetsNoCgnat
INVARIANTS NoPrivateContact TableAgrees
VIEW View
CHECK_DEADLOCK FALSE
