--------------------------- MODULE AddrPolicyConc ---------------------------
(***************************************************************************)
(* C05, concurrent stage.  cmd/outline-ss-server/main.go starts one        *)
(* `go ssService.HandlePacket(pc)` per UDP listener of a service, all on   *)
(* ONE packetHandler: several Handle loops (udp.go:138-221) run in         *)
(* parallel on the same handler object.                                    *)
(*                                                                         *)
(* Statement added here: the decision about a datagram and the address it  *)
(* is written to depend ONLY on that datagram's own destination.  The      *)
(* loops are processes that share nothing per datagram: the decoded target *)
(* (ccand[i]) is local to the loop between validatePacket and WriteTo.     *)
(*   ConcNoPrivateContact  no datagram of any loop leaves for an address   *)
(*                         the property names (NoPrivateContact over all   *)
(*                         loops)                                          *)
(*   ConcOwnDestination    a datagram is written to its own destination    *)
(* NEGATIVE configuration MC_AddrPolicyConcNeg.cfg: SharedScratch = TRUE   *)
(* keeps the decoded target in ONE cell of the handler (written by decode, *)
(* read by validate and by WriteTo); TLC must refute ConcNoPrivateContact  *)
(* (loop 1 validated a public address, loop 2 decoded a private one, loop  *)
(* 1 writes).                                                              *)
(*                                                                         *)
(* Gen_AddrPolicyConc.cfg (-simulate): every finished behaviour prints     *)
(* <<"CBEH", json>> = the datagrams each loop received, in order; the      *)
(* driver (harness/cmd/addrpolicy conc) gives loop i's list to client i of *)
(* listener i and lets the two real Handle goroutines interleave freely.   *)
(* The observations come back as "Conc"/"CSent" events of AddrPolicyTrace. *)
(***************************************************************************)
EXTENDS AddrPolicy, Json

CONSTANTS NPer,          \* datagrams per loop
          SharedScratch  \* FALSE = the real code (decoded target is a local of the loop)

Loops == {1, 2}
\* loop 1: mostly allowed, sink-reachable targets; loop 2: mostly forbidden targets that HAVE a sink
ConcDests(i) == IF i = 1 THEN {IpDest(Pub), IpDest(Map(Pub)), IpDest(Lo4)}
                         ELSE {IpDest(Lo4), IpDest(Lo6), IpDest(Ula), IpDest(Map(Lo4)), IpDest(Pub)}

VARIABLES cstep,    \* [loop -> "idle" | "validate" | "send"]
          cseq,     \* [loop -> datagrams received so far]
          ccur,     \* [loop -> destination of the datagram being handled]
          ccand,    \* [loop -> decoded target address: LOCAL to the loop]
          scratch,  \* the one cell of the handler (used only when SharedScratch)
          csent,    \* OBSERVATION: set of <<loop, seq, destination, address written to>>
          ctr,      \* history: the datagrams received, for generation
          cdone
cvars == <<cstep, cseq, ccur, ccand, scratch, csent, ctr, cdone>>

ConcInit == /\ Init /\ mode = "udp"
            /\ cstep = [i \in Loops |-> "idle"] /\ cseq = [i \in Loops |-> 0]
            /\ ccur = [i \in Loops |-> NoDest] /\ ccand = [i \in Loops |-> Nil]
            /\ scratch = Nil /\ csent = {} /\ ctr = <<>> /\ cdone = FALSE

Target(i) == IF SharedScratch THEN scratch ELSE ccand[i]

\* udp.go:139 ReadFrom + :224-236 validatePacket decodes the target
CRecv(i, d) == /\ cstep[i] = "idle" /\ cseq[i] < NPer
               /\ cseq' = [cseq EXCEPT ![i] = @ + 1] /\ ccur' = [ccur EXCEPT ![i] = d]
               /\ ccand' = [ccand EXCEPT ![i] = d.a]
               /\ scratch' = IF SharedScratch THEN d.a ELSE scratch
               /\ cstep' = [cstep EXCEPT ![i] = "validate"]
               /\ ctr' = Append(ctr, [loop |-> i, seq |-> cseq[i] + 1, d |-> d, cls |-> Class(d.a)])
               /\ UNCHANGED <<csent, cdone>>
\* udp.go:237 targetIPValidator (both branches of Handle)
CValidate(i) == /\ cstep[i] = "validate"
                /\ cstep' = [cstep EXCEPT ![i] = IF CodeRejects(Target(i)) THEN "idle" ELSE "send"]
                /\ UNCHANGED <<cseq, ccur, ccand, scratch, csent, ctr, cdone>>
\* udp.go:206 targetConn.WriteTo
CSend(i) == /\ cstep[i] = "send"
            /\ csent' = csent \cup {<<i, cseq[i], ccur[i], Target(i)>>}
            /\ cstep' = [cstep EXCEPT ![i] = "idle"]
            /\ UNCHANGED <<cseq, ccur, ccand, scratch, ctr, cdone>>

ConcOver == \A i \in Loops : cstep[i] = "idle" /\ cseq[i] = NPer
ConcFinish == ConcOver /\ ~cdone /\ cdone' = TRUE /\ UNCHANGED <<cstep, cseq, ccur, ccand, scratch, csent, ctr>>
ConcNext == /\ ~cdone
            /\ \/ \E i \in Loops : (\E d \in ConcDests(i) : CRecv(i, d)) \/ CValidate(i) \/ CSend(i)
               \/ ConcFinish
            /\ UNCHANGED vars
ConcSpec == ConcInit /\ [][ConcNext]_<<vars, cvars>>

(* ---- property layer ---- *)
ConcNoPrivateContact == \A s \in csent : ~MustReject(s[4])
ConcOwnDestination   == \A s \in csent : s[4] = s[3].a
\* every allowed datagram of a finished run was written (the stage is not vacuous)
ConcAllowedSent == ConcOver => \A j \in DOMAIN ctr :
                     ~CodeRejects(ctr[j].d.a) => \E s \in csent : s[1] = ctr[j].loop /\ s[2] = ctr[j].seq
ConcDump == cdone => PrintT(<<"CBEH", ToJson(ctr)>>)
ConcView == <<cstep, cseq, ccur, ccand, scratch, csent, cdone>>
===============================================================================
