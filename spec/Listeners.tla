------------------------------- MODULE Listeners -------------------------------
(***************************************************************************)
(* service/listeners.go at lock / channel / goroutine granularity.         *)
(*                                                                         *)
(*   listenerManager   one mutex `mgrLock`, map key -> shared listener     *)
(*   multiStream/PacketListener ("object")  mutex, socket, count, channels *)
(*   virtualStreamListener / virtualPacketConn ("handle")  mutex, closeCh  *)
(*   accept goroutine (stream) / read goroutine (packet): one per bind     *)
(*   kernel: per-socket queue of connections / datagrams                   *)
(*                                                                         *)
(* API threads execute scripts of listen / close / accept(read) calls.     *)
(* Every label below is a gate in the code (build tag verif), so a TLC     *)
(* behaviour projected to <<process, label>> is a schedule the harness can *)
(* replay on the real code.                                                *)
(*                                                                         *)
(* Variant switches (constants) select the code as it was at the pinned    *)
(* commit or as repaired, so the same module documents both:               *)
(*   CbUnderLock   TRUE : manager callback runs while the object lock is   *)
(*                        held (pinned code: lock-order inversion, C13)    *)
(*   GiveUp        FALSE: accept goroutine blocks forever in its channel   *)
(*                        send when nobody is left (pinned code, C12)      *)
(*   PreCheckClosed FALSE: virtualPacketConn.ReadFrom does not look at its *)
(*                        close flag before offering a request (pinned)    *)
(*   Capture       FALSE: the goroutines re-read the object's fields       *)
(*                        (socket, channels) unsynchronised at every use   *)
(*                        (pinned); TRUE: they use the values of their own *)
(*                        bind                                             *)
(*   NilPacketSock FALSE: multiPacketListener keeps m.pc after closing it  *)
(*                        (pinned): a re-acquired object is dead           *)
(*   ErrAware      FALSE: the accept goroutine, giving up with the result of  *)
(*                        a FAILED accept in its hands, calls Close on the *)
(*                        nil connection it got with the error (first      *)
(*                        version of the GiveUp repair): the process dies  *)
(*   CloseWaits    FALSE: Close of a handle returns while accept/read      *)
(*                        calls of that handle are still in flight; one of *)
(*                        them may then take an item that arrives later    *)
(*                        (both select branches ready).  TRUE (repaired):  *)
(*                        Close waits for the calls in flight (label C1w), *)
(*                        and ReadFrom looks at the close flag under the   *)
(*                        handle lock                                      *)
(*   RecheckAfterRecv TRUE: (negative control, never the code) AcceptStream *)
(*                        re-reads closeCh in the window between receiving  *)
(*                        a connection from the shared channel and          *)
(*                        returning it, and closes the connection when its  *)
(*                        handle was closed meanwhile: the connection is    *)
(*                        lost although another handle of the address is    *)
(*                        open (C12 "never lost while some handle keeps     *)
(*                        accepting"; tag dropped-while-open)               *)
(***************************************************************************)
EXTENDS Integers, Sequences, FiniteSets, TLC

CONSTANTS ForeignKeys,    \* keys whose address a foreign socket holds: binding them fails (the call must still return)
          Threads,        \* API thread ids, 1..N
          Keys,           \* listener keys; KindOf[k] \in {"s","p"} (stream / packet); same manager lock for all
          KindOf,
          ScriptChoices,  \* set of functions Threads -> Seq(op); op = [a |-> "listen"|"close"|"accept", k, h]
          NItems,         \* connections / datagrams the environment may send
          NH,             \* handle slots
          MaxObj, MaxSock,
          CbUnderLock, Capture, GiveUp, PreCheckClosed, NilPacketSock, CloseWaits, ErrAware,
          RecheckAfterRecv, \* TRUE: AcceptStream looks at closeCh once more AFTER it has received a connection and, if its
                            \* handle has been closed meanwhile, closes the connection and fails (seeded change C06-K; not the code)
          AcceptErrors    \* how many accept calls the environment may fail with a non-closed error (EMFILE ...)

VARIABLES foreign,                  \* keys whose address a foreign socket holds NOW (initially ForeignKeys; a "free" op releases one)
          script,                   \* chosen in Init
          pc, ip, tobj, lch, tafter,  \* per thread: label, script index, object being acquired, channel snapshot, "call began after Close returned"
          mgrLock, mgrMap,          \* manager
          obj, nobj,                \* shared listener objects
          sock, nsock,              \* sockets (index = goroutine index)
          chClosed, nch,            \* channels are integers; closed ones
          hd,                       \* handles by slot
          gor,                      \* per-bind goroutine
          fate, nitems,             \* items (connections / datagrams)
          sentAfter,                \* item -> handles whose Close had returned when the item was sent
          nerr,                     \* accept calls failed so far
          bad,                      \* set of property-violation tags observed
          tr                        \* schedule history <<proc, label>> (hidden by VIEW)

vars == <<foreign, script, pc, ip, tobj, lch, tafter, mgrLock, mgrMap, obj, nobj, sock, nsock, chClosed, nch, hd, gor, fate, nitems, sentAfter, nerr, bad, tr>>
View == <<foreign, script, pc, ip, tobj, lch, tafter, mgrLock, mgrMap, obj, nobj, sock, nsock, chClosed, nch, hd, gor, fate, nitems, sentAfter, nerr, bad>>

G(g) == 100 + g        \* lock-holder id of goroutine g
Objs == 1..MaxObj
Socks == 1..MaxSock
HS == 1..NH
Items == 1..NItems

NoObj  == [key |-> 0, lock |-> 0, sock |-> 0, count |-> 0, ch |-> 0, done |-> 0, onClose |-> FALSE]
NoSock == [key |-> 0, open |-> FALSE, q |-> <<>>]
NoHd   == [st |-> "none", obj |-> 0, ch |-> 0, chNil |-> FALSE, closeCh |-> FALSE, onClose |-> FALSE, lock |-> 0, kind |-> "", closeDone |-> FALSE]
NoGor  == [pc |-> "none", o |-> 0, held |-> 0, lnl |-> 0, sch |-> 0, sdone |-> 0]

Init == /\ script \in ScriptChoices /\ foreign = ForeignKeys
        /\ pc = [t \in Threads |-> "idle"] /\ ip = [t \in Threads |-> 1]
        /\ tobj = [t \in Threads |-> 0] /\ lch = [t \in Threads |-> 0] /\ tafter = [t \in Threads |-> FALSE]
        /\ mgrLock = 0 /\ mgrMap = [k \in Keys |-> 0]
        /\ obj = [o \in Objs |-> NoObj] /\ nobj = 0
        /\ sock = [s \in Socks |-> NoSock] /\ nsock = 0
        /\ chClosed = {} /\ nch = 0
        /\ hd = [h \in HS |-> NoHd]
        /\ gor = [s \in Socks |-> NoGor]
        /\ fate = [i \in Items |-> [st |-> "new", at |-> 0]] /\ nitems = 0
        /\ sentAfter = [i \in Items |-> {}] /\ nerr = 0
        /\ bad = {}
        /\ tr = <<>>

HasOp(t) == ip[t] <= Len(script[t])
Op(t) == script[t][ip[t]]
\* schedule entry: process, label, and (for API threads) the handle slot the call works on
Step(p, l) == tr' = Append(tr, <<p, l, IF p \in Threads /\ HasOp(p) THEN Op(p).h ELSE 0>>)
Finish(t) == /\ ip' = [ip EXCEPT ![t] = ip[t] + 1] /\ pc' = [pc EXCEPT ![t] = "idle"]

(* -------------------------------- listen -------------------------------- *)
\* listeners.go:353-358 / 377-382: manager lock, look up or create the shared listener object
L1(t) == /\ pc[t] = "idle" /\ HasOp(t) /\ Op(t).a = "listen"
         /\ hd[Op(t).h].st = "none"
         /\ mgrLock = 0
         /\ LET k == Op(t).k IN
            IF mgrMap[k] # 0
            THEN /\ tobj' = [tobj EXCEPT ![t] = mgrMap[k]]
                 /\ UNCHANGED <<mgrMap, obj, nobj>>
            ELSE /\ nobj < MaxObj
                 /\ nobj' = nobj + 1
                 /\ obj' = [obj EXCEPT ![nobj + 1] = [NoObj EXCEPT !.key = k, !.onClose = TRUE]]
                 /\ mgrMap' = [mgrMap EXCEPT ![k] = nobj + 1]
                 /\ tobj' = [tobj EXCEPT ![t] = nobj + 1]
         /\ mgrLock' = t
         /\ pc' = [pc EXCEPT ![t] = "L2"]
         /\ Step(t, "L1")
         /\ UNCHANGED <<foreign, script, ip, lch, tafter, sock, nsock, chClosed, nch, hd, gor, fate, nitems, sentAfter, nerr, nerr, bad>>

BoundElsewhere(k) == \E s \in Socks : sock[s].open /\ sock[s].key = k

\* listeners.go:200-255 / 275-328 Acquire under the object lock (manager lock still held), then both released
L2(t) == /\ pc[t] = "L2"
         /\ LET o == tobj[t]
                k == obj[o].key
                h == Op(t).h
                needBind == obj[o].sock = 0 IN
            /\ obj[o].lock = 0
            /\ IF needBind /\ (BoundElsewhere(k) \/ k \in foreign)
               THEN \* bind error (EADDRINUSE): the call fails and returns; the handle slot is marked failed
                    /\ bad' = IF k \in foreign THEN bad ELSE bad \cup {"listen-failed"}
                    /\ hd' = [hd EXCEPT ![h] = [NoHd EXCEPT !.st = "failed"]]
                    /\ UNCHANGED <<obj, sock, nsock, nch, gor>>
               ELSE /\ IF needBind
                       THEN /\ nsock < MaxSock
                            /\ nsock' = nsock + 1
                            /\ nch' = nch + 2
                            /\ sock' = [sock EXCEPT ![nsock + 1] = [key |-> k, open |-> TRUE, q |-> <<>>]]
                            /\ gor' = [gor EXCEPT ![nsock + 1] =
                                         [NoGor EXCEPT !.pc = IF KindOf[k] = "s" THEN (IF Capture THEN "accept" ELSE "top") ELSE "read",
                                                       !.o = o, !.lnl = nsock + 1, !.sch = nch + 1, !.sdone = nch + 2]]
                            /\ obj' = [obj EXCEPT ![o].sock = nsock + 1, ![o].ch = nch + 1, ![o].done = nch + 2,
                                                  ![o].count = obj[o].count + 1]
                            /\ hd' = [hd EXCEPT ![h] = [NoHd EXCEPT !.st = "open", !.obj = o, !.ch = nch + 1,
                                                                    !.onClose = TRUE, !.kind = KindOf[k]]]
                       ELSE /\ obj' = [obj EXCEPT ![o].count = obj[o].count + 1]
                            /\ hd' = [hd EXCEPT ![h] = [NoHd EXCEPT !.st = "open", !.obj = o, !.ch = obj[o].ch,
                                                                    !.onClose = TRUE, !.kind = KindOf[k]]]
                            /\ UNCHANGED <<sock, nsock, nch, gor>>
                    /\ bad' = IF ~needBind /\ ~sock[obj[o].sock].open THEN bad \cup {"listen-dead-socket"} ELSE bad
         /\ mgrLock' = 0
         /\ Finish(t)
         /\ Step(t, "L2")
         /\ UNCHANGED <<foreign, script, tobj, lch, tafter, mgrMap, nobj, chClosed, fate, nitems, sentAfter, nerr>>

(* -------------------------------- close --------------------------------- *)
\* listeners.go:99-107 / 160-164: handle lock (kept until Close returns), mark closed, close closeCh
C1(t) == /\ pc[t] = "idle" /\ HasOp(t) /\ Op(t).a = "close"
         /\ LET h == Op(t).h IN
            /\ hd[h].st # "none"
            /\ hd[h].lock = 0
            /\ IF hd[h].st = "failed" \/ (hd[h].kind = "s" /\ hd[h].chNil)
               THEN \* already closed: returns at once
                    /\ Finish(t) /\ UNCHANGED hd
               ELSE /\ hd' = [hd EXCEPT ![h].lock = t, ![h].chNil = TRUE, ![h].closeCh = TRUE, ![h].onClose = FALSE]
                    /\ pc' = [pc EXCEPT ![t] = IF CloseWaits THEN "C1w" ELSE "C2"] /\ UNCHANGED ip
         /\ Step(t, "C1")
         /\ UNCHANGED <<foreign, script, tobj, lch, tafter, mgrLock, mgrMap, obj, nobj, sock, nsock, chClosed, nch, gor, fate, nitems, sentAfter, nerr, bad>>

\* repaired code: Close waits (handle lock held) until no accept/read call of the handle is in flight; those calls are
\* woken up by closeCh (A2closed is enabled for them) or complete a delivery that is already under way (A2recv)
InFlight(h) == \E t2 \in Threads : pc[t2] = "A2" /\ Op(t2).h = h
C1w(t) == /\ pc[t] = "C1w"
          /\ ~InFlight(Op(t).h)
          /\ pc' = [pc EXCEPT ![t] = "C2"]
          /\ Step(t, "C1w")
          /\ UNCHANGED <<foreign, script, ip, tobj, lch, tafter, mgrLock, mgrMap, obj, nobj, sock, nsock, chClosed, nch, hd, gor, fate, nitems, sentAfter, nerr, nerr, bad>>

\* items still queued on a socket that is closed are reset (stream) / dropped (packet) by the kernel
KillQueue(s, f) == [i \in Items |-> IF \E j \in 1..Len(sock[s].q) : sock[s].q[j] = i
                                    THEN [st |-> IF KindOf[sock[s].key] = "s" THEN "reset" ELSE "dropped", at |-> 0]
                                    ELSE f[i]]

\* listeners.go:239-253 / 312-326 onCloseFunc under the object lock
C2(t) == /\ pc[t] = "C2"
         /\ LET h == Op(t).h
                o == hd[h].obj
                s == obj[o].sock
                last == obj[o].count = 1 IN
            /\ obj[o].lock = 0
            /\ IF ~last
               THEN /\ obj' = [obj EXCEPT ![o].count = obj[o].count - 1]
                    /\ hd' = [hd EXCEPT ![h].lock = 0, ![h].st = "closed", ![h].closeDone = TRUE]
                    /\ Finish(t)
                    /\ UNCHANGED <<sock, chClosed, fate>>
               ELSE /\ sock' = [sock EXCEPT ![s].open = FALSE, ![s].q = <<>>]
                    /\ fate' = KillQueue(s, fate)
                    /\ chClosed' = IF KindOf[obj[o].key] = "p" \/ GiveUp THEN chClosed \cup {obj[o].done} ELSE chClosed
                    /\ LET newsock == IF KindOf[obj[o].key] = "s" \/ NilPacketSock THEN 0 ELSE obj[o].sock IN
                       IF obj[o].onClose
                       THEN \* callback into the manager.  Pinned code: called with the object lock held and then
                            \* forgotten (onCloseFunc = nil).  Repaired: called after the lock is released, kept.
                            /\ obj' = [obj EXCEPT ![o].count = 0, ![o].sock = newsock,
                                                  ![o].onClose = IF CbUnderLock THEN FALSE ELSE TRUE,
                                                  ![o].lock = IF CbUnderLock THEN t ELSE 0]
                            /\ pc' = [pc EXCEPT ![t] = "C4"] /\ UNCHANGED <<ip, hd>>
                       ELSE /\ obj' = [obj EXCEPT ![o].count = 0, ![o].sock = newsock]
                            /\ hd' = [hd EXCEPT ![h].lock = 0, ![h].st = "closed", ![h].closeDone = TRUE]
                            /\ Finish(t)
         /\ Step(t, "C2")
         /\ UNCHANGED <<foreign, script, tobj, lch, tafter, mgrLock, mgrMap, nobj, nsock, nch, gor, nitems, sentAfter, nerr, bad>>

\* listeners.go:361-365 / 385-389 manager callback: delete the map entry
C4(t) == /\ pc[t] = "C4"
         /\ mgrLock = 0
         /\ LET h == Op(t).h
                o == hd[h].obj
                k == obj[o].key IN
            /\ CbUnderLock \/ obj[o].lock = 0     \* repaired: the callback looks at the object under its lock (order mgr -> object)
            /\ mgrMap' = [mgrMap EXCEPT ![k] = IF CbUnderLock \/ (mgrMap[k] = o /\ obj[o].count = 0)
                                               THEN 0 ELSE mgrMap[k]]
            /\ obj' = IF CbUnderLock THEN [obj EXCEPT ![o].lock = 0] ELSE obj
            /\ hd' = [hd EXCEPT ![h].lock = 0, ![h].st = "closed", ![h].closeDone = TRUE]
         /\ Finish(t)
         /\ Step(t, "C4")
         /\ UNCHANGED <<foreign, script, tobj, lch, tafter, mgrLock, nobj, sock, nsock, chClosed, nch, gor, fate, nitems, sentAfter, nerr, bad>>

(* ------------------------- accept / read (API side) ---------------------- *)
\* listeners.go:83-86 snapshot of acceptCh under the handle lock / start of ReadFrom
\* the foreign socket that held key k goes away (the next listen on k can bind)
FreeOp(t) == /\ pc[t] = "idle" /\ HasOp(t) /\ Op(t).a = "free"
             /\ foreign' = foreign \ {Op(t).k}
             /\ Finish(t) /\ Step(t, "Free")
             /\ UNCHANGED <<script, tobj, lch, tafter, mgrLock, mgrMap, obj, nobj, sock, nsock, chClosed, nch, hd, gor, fate, nitems, sentAfter, nerr, nerr, bad>>

\* a script step on a handle whose listen failed is skipped by the driver
SkipFailed(t) == /\ pc[t] = "idle" /\ HasOp(t) /\ Op(t).a = "accept" /\ hd[Op(t).h].st = "failed"
                 /\ Finish(t) /\ Step(t, "Skip")
                 /\ UNCHANGED <<foreign, script, tobj, lch, tafter, mgrLock, mgrMap, obj, nobj, sock, nsock, chClosed, nch, hd, gor, fate, nitems, sentAfter, nerr, nerr, bad>>

A1(t) == /\ pc[t] = "idle" /\ HasOp(t) /\ Op(t).a = "accept"
         /\ LET h == Op(t).h IN
            /\ hd[h].st \notin {"none", "failed"}
            /\ (hd[h].kind = "p" /\ ~CloseWaits) \/ hd[h].lock = 0     \* repaired: ReadFrom takes the handle lock as well
            /\ tafter' = [tafter EXCEPT ![t] = hd[h].closeDone]
            /\ lch' = [lch EXCEPT ![t] = IF hd[h].kind = "s" /\ hd[h].chNil THEN 0 ELSE hd[h].ch]
            /\ IF hd[h].kind = "p" /\ PreCheckClosed /\ hd[h].closeCh
               THEN /\ Finish(t)      \* repaired code: a closed handle refuses before offering a request
               ELSE /\ pc' = [pc EXCEPT ![t] = "A2"] /\ UNCHANGED ip
         /\ Step(t, "A1")
         /\ UNCHANGED <<foreign, script, tobj, mgrLock, mgrMap, obj, nobj, sock, nsock, chClosed, nch, hd, gor, fate, nitems, sentAfter, nerr, nerr, bad>>

Delivered(t, h, i) == /\ fate' = [fate EXCEPT ![i] = [st |-> "delivered", at |-> h]]
                      \* to a call that began after Close had returned, or an item that was sent only after Close had returned
                      /\ bad' = IF tafter[t] \/ h \in sentAfter[i] THEN bad \cup {"delivered-after-close"} ELSE bad

\* the server itself closes accepted connection i of shared listener o without any call having returned it.  C12: that is
\* allowed only when the connection can no longer be handed to anyone, i.e. no handle of the address is open
\* (handles of the bind whose accept channel is c: a later bind of the same address is another socket)
OpenHandlesOf(c, except) == {h2 \in HS \ {except} : hd[h2].st = "open" /\ hd[h2].ch = c /\ ~hd[h2].closeCh}
ServerCloses(i, c, except) == /\ fate' = [fate EXCEPT ![i] = [st |-> "srvclosed", at |-> 0]]
                              /\ bad' = IF OpenHandlesOf(c, except) # {} THEN bad \cup {"dropped-while-open"} ELSE bad

\* select, branch "receive from the goroutine" (rendezvous: both sides move)
A2recv(t) == /\ pc[t] = "A2"
             /\ LET h == Op(t).h IN
                \E g \in Socks :
                  /\ lch[t] # 0 /\ lch[t] \notin chClosed
                  /\ \/ /\ hd[h].kind = "s" /\ gor[g].pc = "send" /\ gor[g].sch = lch[t]
                        /\ gor' = [gor EXCEPT ![g].pc = IF Capture THEN "accept" ELSE "top", ![g].held = 0]
                        /\ IF gor[g].held > 0
                           THEN IF RecheckAfterRecv /\ hd[h].closeCh
                                THEN ServerCloses(gor[g].held, lch[t], h)   \* received, then thrown away: the call fails with ErrClosed
                                ELSE Delivered(t, h, gor[g].held)
                           ELSE UNCHANGED <<fate, bad>>       \* the accept error is returned to this call
                     \/ /\ hd[h].kind = "p" /\ gor[g].pc = "sel" /\ gor[g].sch = lch[t]
                        /\ gor' = [gor EXCEPT ![g].pc = "read", ![g].held = 0]
                        /\ IF gor[g].held > 0
                           THEN Delivered(t, h, gor[g].held)
                           ELSE \* read error from a closed socket handed to this call: errors.Is(err, net.ErrClosed)
                                /\ bad' = IF hd[h].closeCh THEN bad ELSE bad \cup {"spurious-closed"}
                                /\ UNCHANGED fate
             /\ Finish(t)
             /\ Step(t, "A2recv")
             /\ UNCHANGED <<foreign, script, tobj, lch, tafter, mgrLock, mgrMap, obj, nobj, sock, nsock, chClosed, nch, hd, nitems, sentAfter, nerr>>

\* select, branches "acceptCh closed" / "closeCh closed": the call fails with net.ErrClosed
A2closed(t) == /\ pc[t] = "A2"
               /\ LET h == Op(t).h IN
                  /\ \/ hd[h].closeCh
                     \/ (hd[h].kind = "s" /\ lch[t] # 0 /\ lch[t] \in chClosed)
                  /\ bad' = IF hd[h].closeCh THEN bad ELSE bad \cup {"spurious-closed"}
               /\ Finish(t)
               /\ Step(t, "A2closed")
               /\ UNCHANGED <<foreign, script, tobj, lch, tafter, mgrLock, mgrMap, obj, nobj, sock, nsock, chClosed, nch, hd, gor, fate, nitems, sentAfter, nerr>>

(* ----------------------------- goroutines ------------------------------- *)
\* stream, listeners.go:216-223: read m.ln under the object lock
Gtop(g) == /\ gor[g].pc = "top"
           /\ LET o == gor[g].o IN
              /\ obj[o].lock = 0
              /\ gor' = [gor EXCEPT ![g].pc = IF obj[o].sock = 0 THEN "done" ELSE "accept", ![g].lnl = obj[o].sock]
           /\ Step(G(g), "Gtop")
           /\ UNCHANGED <<foreign, script, pc, ip, tobj, lch, tafter, mgrLock, mgrMap, obj, nobj, sock, nsock, chClosed, nch, hd, fate, nitems, sentAfter, nerr, bad>>

\* stream, listeners.go:224-229: AcceptStream returns a connection, or ErrClosed -> close(m.acceptCh)
Gaccept(g) == /\ gor[g].pc = "accept"
              /\ LET s == gor[g].lnl
                     o == gor[g].o IN
                 \/ /\ sock[s].open /\ Len(sock[s].q) > 0
                    /\ gor' = [gor EXCEPT ![g].pc = "send", ![g].held = Head(sock[s].q),
                                          ![g].sch = IF Capture THEN gor[g].sch ELSE obj[o].ch,
                                          ![g].sdone = IF Capture THEN gor[g].sdone ELSE obj[o].done]
                    /\ sock' = [sock EXCEPT ![s].q = Tail(sock[s].q)]
                    /\ fate' = [fate EXCEPT ![Head(sock[s].q)] = [st |-> "held", at |-> g]]
                    /\ UNCHANGED <<chClosed, bad>>
                 \/ /\ ~sock[s].open
                    /\ gor' = [gor EXCEPT ![g].pc = "done"]
                    /\ LET c == IF Capture THEN gor[g].sch ELSE obj[o].ch IN   \* pinned: the field as it is NOW
                         /\ chClosed' = chClosed \cup {c}
                         /\ bad' = IF c \in chClosed THEN bad \cup {"panic-close-of-closed-channel"} ELSE bad
                    /\ UNCHANGED <<sock, fate>>
              /\ Step(G(g), "Gaccept")
              /\ UNCHANGED <<foreign, script, pc, ip, tobj, lch, tafter, mgrLock, mgrMap, obj, nobj, nsock, nch, hd, nitems, sentAfter, nerr>>

\* stream: accept fails with an error other than "closed" (EMFILE, ECONNABORTED ...): the connection stays queued, the
\* goroutine goes to its channel operation with <nil connection, error> in its hands (held = -2)
GacceptErr(g) == /\ gor[g].pc = "accept" /\ nerr < AcceptErrors
                 /\ LET s == gor[g].lnl
                        o == gor[g].o IN
                    /\ sock[s].open /\ Len(sock[s].q) > 0
                    /\ gor' = [gor EXCEPT ![g].pc = "send", ![g].held = 0 - 2,
                                          ![g].sch = IF Capture THEN gor[g].sch ELSE obj[o].ch,
                                          ![g].sdone = IF Capture THEN gor[g].sdone ELSE obj[o].done]
                 /\ nerr' = nerr + 1
                 /\ Step(G(g), "GacceptErr")
                 /\ UNCHANGED <<foreign, script, pc, ip, tobj, lch, tafter, mgrLock, mgrMap, obj, nobj, sock, nsock, chClosed, nch, hd, fate, nitems, sentAfter, bad>>

\* repaired code only: the goroutine gives up when everybody has gone and closes the connection it holds
Ggiveup(g) == /\ GiveUp
              /\ gor[g].pc = "send" /\ gor[g].sdone \in chClosed
              /\ gor' = [gor EXCEPT ![g].pc = "done", ![g].held = 0]
              /\ fate' = IF gor[g].held > 0 THEN [fate EXCEPT ![gor[g].held] = [st |-> "srvclosed", at |-> 0]] ELSE fate
              \* with the result of a failed accept in its hands there is no connection to close; a connection may be closed
              \* here because nobody is left to take it (the same clause as in ServerCloses)
              /\ bad' = (IF gor[g].held < 0 /\ ~ErrAware THEN bad \cup {"panic-close-of-nil-connection"} ELSE bad)
                         \cup (IF gor[g].held > 0 /\ OpenHandlesOf(gor[g].sch, 0) # {} THEN {"dropped-while-open"} ELSE {})
              /\ chClosed' = chClosed \cup {gor[g].sch}
              /\ Step(G(g), "Ggiveup")
              /\ UNCHANGED <<foreign, script, pc, ip, tobj, lch, tafter, mgrLock, mgrMap, obj, nobj, sock, nsock, nch, hd, nitems, sentAfter, nerr>>

\* packet, listeners.go:290: m.pc.ReadFrom returns a datagram, or an error once the socket is closed
Pread(g) == /\ gor[g].pc = "read"
            /\ LET o == gor[g].o
                   s == IF Capture \/ obj[o].sock = 0 THEN gor[g].lnl ELSE obj[o].sock
                   c == IF Capture THEN gor[g].sch ELSE obj[o].ch
                   d == IF Capture THEN gor[g].sdone ELSE obj[o].done IN
               \/ /\ sock[s].open /\ Len(sock[s].q) > 0
                  /\ gor' = [gor EXCEPT ![g].pc = "sel", ![g].held = Head(sock[s].q), ![g].sch = c, ![g].sdone = d]
                  /\ sock' = [sock EXCEPT ![s].q = Tail(sock[s].q)]
                  /\ fate' = [fate EXCEPT ![Head(sock[s].q)] = [st |-> "held", at |-> g]]
               \/ /\ ~sock[s].open
                  /\ gor' = [gor EXCEPT ![g].pc = "sel", ![g].held = -1, ![g].sch = c, ![g].sdone = d]
                  /\ UNCHANGED <<sock, fate>>
            /\ Step(G(g), "Pread")
            /\ UNCHANGED <<foreign, script, pc, ip, tobj, lch, tafter, mgrLock, mgrMap, obj, nobj, nsock, chClosed, nch, hd, nitems, sentAfter, nerr, bad>>

\* packet, listeners.go:300-301: doneCh closed -> the goroutine exits (a datagram it holds is dropped)
Pdone(g) == /\ gor[g].pc = "sel" /\ gor[g].sdone \in chClosed
            /\ gor' = [gor EXCEPT ![g].pc = "done", ![g].held = 0]
            /\ fate' = IF gor[g].held > 0 THEN [fate EXCEPT ![gor[g].held] = [st |-> "dropped", at |-> 0]] ELSE fate
            /\ Step(G(g), "Pdone")
            /\ UNCHANGED <<foreign, script, pc, ip, tobj, lch, tafter, mgrLock, mgrMap, obj, nobj, sock, nsock, chClosed, nch, hd, nitems, sentAfter, nerr, bad>>

(* ----------------------------- environment ------------------------------ *)
Connect(k) == /\ nitems < NItems
              /\ \E t \in Threads : \E j \in 1..Len(script[t]) : script[t][j].a = "listen" /\ script[t][j].k = k
              /\ nitems' = nitems + 1
              /\ sentAfter' = [sentAfter EXCEPT ![nitems + 1] = {h \in HS : hd[h].closeDone}]
              /\ IF \E s \in Socks : sock[s].open /\ sock[s].key = k
                 THEN LET s == CHOOSE x \in Socks : sock[x].open /\ sock[x].key = k IN
                      /\ sock' = [sock EXCEPT ![s].q = Append(sock[s].q, nitems + 1)]
                      /\ fate' = [fate EXCEPT ![nitems + 1] = [st |-> "queued", at |-> s]]
                 ELSE /\ fate' = [fate EXCEPT ![nitems + 1] = [st |-> "refused", at |-> 0]]
                      /\ UNCHANGED sock
              /\ Step(0, "Connect" \o ToString(k))
              /\ UNCHANGED <<foreign, script, pc, ip, tobj, lch, tafter, mgrLock, mgrMap, obj, nobj, nsock, chClosed, nch, hd, gor, nerr, bad>>

AllDone == \A t \in Threads : pc[t] = "idle" /\ ~HasOp(t)
\* a call legitimately waiting for traffic on an open handle is not a deadlock
Parked(t) == pc[t] = "A2" /\ ~hd[Op(t).h].closeCh
Terminal == (\A t \in Threads : (pc[t] = "idle" /\ ~HasOp(t)) \/ Parked(t)) /\ UNCHANGED vars

ThreadStep == \E t \in Threads : FreeOp(t) \/ SkipFailed(t) \/ L1(t) \/ L2(t) \/ C1(t) \/ C1w(t) \/ C2(t) \/ C4(t) \/ A1(t) \/ A2recv(t) \/ A2closed(t)
GorStep == \E g \in Socks : Gtop(g) \/ Gaccept(g) \/ GacceptErr(g) \/ Ggiveup(g) \/ Pread(g) \/ Pdone(g)
EnvStep == \E k \in Keys : Connect(k)

Next == ThreadStep \/ GorStep \/ EnvStep \/ Terminal
Spec == Init /\ [][Next]_vars
FairSpec == Spec /\ WF_vars(ThreadStep) /\ WF_vars(GorStep)

(* ------------------------------ properties ------------------------------ *)
GorCanMove(g) ==
  \/ gor[g].pc = "top" /\ obj[gor[g].o].lock = 0
  \/ gor[g].pc = "accept" /\ (~sock[gor[g].lnl].open \/ Len(sock[gor[g].lnl].q) > 0)
  \/ gor[g].pc = "send" /\ GiveUp /\ gor[g].sdone \in chClosed
  \/ gor[g].pc = "read" /\ LET s == IF Capture \/ obj[gor[g].o].sock = 0 THEN gor[g].lnl ELSE obj[gor[g].o].sock IN
                             (~sock[s].open \/ Len(sock[s].q) > 0)
  \/ gor[g].pc = "sel" /\ gor[g].sdone \in chClosed

AllHandlesClosed == \A h \in HS : hd[h].st \in {"none", "closed", "failed"}
Quiet == AllDone /\ \A g \in Socks : ~GorCanMove(g)

\* C12: exactly-once delivery, closed handles stay closed, other handles undisturbed
NoBadEvent == bad = {}
\* C12: when the last handle has closed: socket released, nothing running, nothing held
CleanAfterAllClosed ==
  (Quiet /\ AllHandlesClosed) =>
     /\ \A s \in Socks : ~sock[s].open
     /\ \A g \in Socks : gor[g].pc \in {"none", "done"}
     /\ \A i \in Items : fate[i].st # "held"
     \* the map may keep an idle entry for an address whose bind failed (listeners.go:368-373 stores the entry before
     \* Acquire); it holds no socket and no reference, and the next listen on the address re-uses it
     /\ \A k \in Keys : mgrMap[k] = 0 \/ (obj[mgrMap[k]].count = 0 /\ obj[mgrMap[k]].sock = 0)
\* C13/C11: sharing is never broken: a listen on a key never fails while the manager itself holds the address
ListenNeverFails == "listen-failed" \notin bad
\* C13: every call returns (deadlock freedom is TLC's deadlock check; this is the liveness form)
Termination == <>AllDone

\* explicit description of the lock cycle, for classification of a TLC deadlock
HoldsMgrWantsObj(t) == pc[t] = "L2" /\ obj[tobj[t]].lock # 0
HoldsObjWantsMgr(t) == pc[t] = "C4" /\ mgrLock # 0
LockCycle == \E a, b \in Threads : a # b /\ HoldsMgrWantsObj(a) /\ HoldsObjWantsMgr(b)
                                  /\ obj[tobj[a]].lock = b /\ mgrLock = a
NoLockCycle == ~LockCycle
===============================================================================
