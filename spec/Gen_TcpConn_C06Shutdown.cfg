SPECIFICATION GenSpec
CONSTANTS
  Conns = {1}
  HsKinds = {"valid", "garbage", "replayC", "replayS"}
  TgtKinds = {"ok"}
  MaxC = 1
  MaxT = 1
  MaxTok = 5
  AllowBad = TRUE
  AllowSplit = FALSE
  AllowRst = FALSE
  AllowTClose = FALSE
  AllowCRst = FALSE
  AllowPause = FALSE
  Planned = TRUE
  Timeout = 2
  MaxNow = 3
  DrainMode = "raw"
  Strict = TRUE
  WithServe = TRUE
  Hist = TRUE
  SlackEarly = 0
  SlackLate = 0
  SlackSched = 0
INVARIANTS DumpInv
ACTION_CONSTRAINT CloseWhileAbsorbing
CHECK_DEADLOCK FALSE
