\* pinned negative control: the interleaving the code must exclude (entry visible before its lookup has answered);
\* TLC MUST report NoUnsetLocation violated
SPECIFICATION Spec
CONSTANTS
  NI = 2
  MaxOps = 1000
  DbEnabled = TRUE
  AtomicRegister = FALSE
INVARIANTS NoUnsetLocation
VIEW View
CHECK_DEADLOCK FALSE
