\* generation of concurrent scenarios (-simulate): the datagrams of the two loops
SPECIFICATION ConcSpec
CONSTANTS
  Modes = {"udp"}
  LogLevels = {"debug"}
  MaxPkts = 3
  ValidateKnown = TRUE
  TcpDests <- BehTcpDests
  UdpDests <- BehUdpDests
  UdpFirst <- BehUdpDests
  NPer = 12
  SharedScratch = FALSE
INVARIANTS ConcDump
CHECK_DEADLOCK FALSE
