\* C02 exhaustive: 1 connection, back-pressure: a receiver may stop reading for any time (clock beyond the handshake timeout)
SPECIFICATION Spec
CONSTANTS
  Conns = {1}
  HsKinds = {"valid"}
  TgtKinds = {"ok"}
  MaxC = 2
  MaxT = 2
  MaxTok = 5
  AllowBad = FALSE
  AllowSplit = FALSE
  AllowRst = FALSE
  AllowTClose = FALSE
  AllowCRst = FALSE
  AllowPause = TRUE
  Planned = FALSE
  Timeout = 2
  MaxNow = 3
  DrainMode = "inner"
  Strict = FALSE
  WithServe = FALSE
  Hist = FALSE
  SlackEarly = 0
  SlackLate = 0
  SlackSched = 0
INVARIANTS TypeOK Inv_C02 C02_Independent C02_Buf50First
INVARIANTS Inv_C15 C15_CountersTrackDelivery
INVARIANTS C18_NoLeak C18_AllReturned C18_ServeWaits C18_SocketsFollowHandler
VIEW View
