SPECIFICATION GenSpec
CONSTANTS
  Conns = {1}
  HsKinds = {"valid"}
  TgtKinds = {"ok"}
  MaxC = 2
  MaxT = 2
  MaxTok = 7
  AllowBad = FALSE
  AllowSplit = FALSE
  AllowRst = FALSE
  AllowTClose = FALSE
  AllowCRst = FALSE
  AllowPause = TRUE
  Planned = TRUE
  Timeout = 2
  MaxNow = 4
  DrainMode = "inner"
  Strict = TRUE
  WithServe = FALSE
  Hist = TRUE
  SlackEarly = 0
  SlackLate = 0
  SlackSched = 0
INVARIANTS DumpInv
ACTION_CONSTRAINT PausedReceiver
CHECK_DEADLOCK FALSE
