\* exhaustive: the whole decision table (2 entry points x classes x 4 database behaviours)
SPECIFICATION Spec
CONSTANTS
  PrivateIsGlobal = TRUE
  ZonedXA = TRUE
INVARIANTS TypeOK LabelByClass DbConsultedOnlyGlobalEnabled ConsultedWhenNeeded
PROPERTIES Terminates
CHECK_DEADLOCK FALSE
