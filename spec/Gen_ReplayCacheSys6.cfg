\* system-level C07 scenarios with a larger history: N = 6 (the -replay_history flag must reach the cache unchanged: a cache built
\* with another capacity remembers a different number of handshakes), handshakes 1..8
SPECIFICATION GenSpec
CONSTANTS
  Hashes = {1, 2, 3, 4, 5, 6, 7, 8}
  Caps = {6}
  MaxOps = 26
INVARIANTS DumpInv
CHECK_DEADLOCK FALSE
