------------------------- MODULE LocationLabelHistGen -------------------------
(* Spec -> code: simulated histories of LocationLabelHist (lookups of the same client under changing database
   behaviours), one JSON behaviour per Finish step; executed by harness/overlay/prometheus/zz_verif_labelhist_test.go on
   the real NewServiceMetrics collectors and judged by LocationLabelTrace (LabelSet events). *)
EXTENDS LocationLabelHist, Json
VARIABLE done
GenInit == Init /\ done = FALSE
Finish  == ~done /\ nops >= MaxOps /\ done' = TRUE /\ UNCHANGED vars
GenNext == (~done /\ Next /\ UNCHANGED done) \/ Finish
GenSpec == GenInit /\ [][GenNext]_<<vars, done>>
DumpInv == done => PrintT(<<"BEH", ToJson(tr)>>)
===============================================================================
