\* exhaustive, quick tier, clock read under the lock (repaired variant), two scrapers interleaved with everything
SPECIFICATION Spec
CONSTANTS
  NI = 2
  NK = 2
  NL = 2
  MaxConn = 2
  MaxClock = 3
  TickSet = {1, 2}
  NS = 2
  MaxOps = 0
  ClockUnderLock = TRUE
  Interleave = TRUE
  WithTraffic = FALSE
  WithUnknownStop = FALSE
  Forms = {1}
  LocMaps <- CanonLocMaps
INVARIANTS TypeOK NonNegativeIncrement InWindowKey InWindowLoc ExactAtLock LocSumEqKeySum Conservation RefCountMatches StartNotInFuture
PROPERTIES Monotone
VIEW View
CHECK_DEADLOCK FALSE
