SPECIFICATION TraceSpec
CONSTANTS
  Modes = {"tcp", "udp", "dec"}
  LogLevels = {"info", "debug"}
  MaxPkts = 1000000
  ValidateKnown = TRUE
  TcpDests <- BehTcpDests
  UdpDests <- BehUdpDests
  UdpFirst <- BehUdpDests
INVARIANTS Report
POSTCONDITION TraceAccepted
CHECK_DEADLOCK FALSE
