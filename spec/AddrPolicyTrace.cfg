SPECIFICATION TraceSpec
CONSTANTS
  Modes = {"tcp", "udp", "dec"}
  MaxPkts = 1000000
  ValidateKnown = TRUE
  TcpDests <- BehTcpDests
  UdpDests <- BehUdpDests
  UdpFirst <- BehUdpDests
INVARIANTS Report
POSTCONDITION TraceAccepted
CHECK_DEADLOCK FALSE
