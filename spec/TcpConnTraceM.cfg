SPECIFICATION TraceSpec
CONSTANTS
  Conns = {1}
  HsKinds = {"valid", "garbage", "replayC", "replayS"}
  TgtKinds = {"ok", "refuse", "deny"}
  MaxC = 12
  MaxT = 12
  MaxTok = 30
  AllowBad = TRUE
  AllowSplit = TRUE
  AllowRst = TRUE
  AllowTClose = TRUE
  AllowCRst = TRUE
  AllowPause = TRUE
  Planned = FALSE
  Timeout = 2
  MaxNow = 12
  DrainMode = "raw"
  Strict = FALSE
  WithServe = TRUE
  Hist = FALSE
  SlackEarly = 0
  SlackLate = 0
  SlackSched = 0
INVARIANTS Finished
CHECK_DEADLOCK FALSE
