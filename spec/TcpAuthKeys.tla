----------------------------- MODULE TcpAuthKeys -----------------------------
(* The key list of the traces under validation.  lib/checks/ta_common.py REPLACES this file in TLC's scratch copy by
   the list the driver really used (names, classes, secrets, including the padding keys); this default is KeysQ. *)
TraceKeys == << [name |-> 1, cls |-> 1, sec |-> 1], [name |-> 2, cls |-> 2, sec |-> 1], [name |-> 99, cls |-> 3, sec |-> 2],
                [name |-> 4, cls |-> 4, sec |-> 2], [name |-> 5, cls |-> 1, sec |-> 1] >>
===============================================================================
