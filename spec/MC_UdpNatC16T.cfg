\* C16/C18 family (thorough): metrics vs wire at boundary sizes, every reply class incl. zoned sender, failures on live associations
SPECIFICATION Spec
CONSTANTS
  Clients = {1, 2}
  IPOf <- MCIPOf
  Keys = {1, 2}
  InitList <- MCInitList
  SaltSz <- MCSaltSz
  Senders = {1, 2, 3, 4, 5}
  Targets = {1, 2, 3}
  DnsPort = {2}
  Allowed = {1, 2}
  Unsendable = {}
  DisarmFirst = TRUE
  Fam <- MCFam
  DgAlpha <- DgC16
  RpAlpha <- RpC16
  MidAlpha <- NoMid
  Sync = FALSE
  T = 2
  DNST = 3
  Ticks = {3}
  MaxNow = 3
  MaxDg = 2
  MaxRp = 2
  MaxAssoc = 2
  Slack = 0
  Bound = 0
  ZonedPanics = FALSE
INVARIANTS TypeOK MechNat MetricsLanguage PktCSound PktTSound PktCPerDatagram PktTPerReply PktTSize CreateOnlyValid CreateOnce RemoveOnce ReclaimedInTime CloseOnce AllReclaimed ShutdownReclaimed NoCrash HandleTotal FwdAuthentic ReplyAuthentic
PROPERTIES FailureIsolated
VIEW View
CHECK_DEADLOCK FALSE
