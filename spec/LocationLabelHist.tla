--------------------------- MODULE LocationLabelHist ---------------------------
(***************************************************************************)
(* C20, second sentence, at the level of the REAL collectors               *)
(* (prometheus/metrics.go): which calls of the metrics API look a client   *)
(* up, which location-labelled series each call feeds, and under which     *)
(* database behaviour that lookup happened.                                *)
(*                                                                         *)
(* Mechanism (one action per API call, lookups where the code does them):  *)
(*   Open(ip)      AddOpenTCPConnection: lookup #1 of the connection       *)
(*                 (:534-538 getIPInfoFromAddr) -> tcp_connections_opened  *)
(*   Auth(c,k)     AddAuthenticated -> startConnection: a SECOND lookup of *)
(*                 the same IP when (ip,key) has no active entry (:449-453)*)
(*   Close(c)      AddClosed: tcp_connections_closed, data_bytes_per_      *)
(*                 location under the connection's label; stopConnection   *)
(*                 reports tunnel time under the entry's label             *)
(*   NatAdd(ip,k)  AddUDPNatEntry: connection lookup (:541) + entry lookup *)
(*   Packet(c)     udp_packets_from_client_per_location, data_bytes_per_   *)
(*                 location under the association's label                  *)
(*   NatRemove(c)  stopConnection                                          *)
(*   Tick          clock +1 and a scrape: every active entry reports under *)
(*                 its label (tunnel_time_seconds_per_location)            *)
(*   SetDb(ip,m)   the database's behaviour for that IP changes (error,    *)
(*                 no country, country) - e.g. error-then-country          *)
(* Every lookup is stamped with the database behaviour in force WHEN IT    *)
(* HAPPENED; the behaviour history `tr` lists per step and per metric      *)
(* family the (ip, db behaviour) stamps whose label must show up.          *)
(* Property layer (judged by LocationLabelTrace on the recorded            *)
(* expositions): the labels a step adds to a family are exactly            *)
(* { Label(class(ip), db) } of those stamps - in particular all series fed *)
(* by one lookup carry one label, and a later lookup of the same IP is     *)
(* labelled by the behaviour in force then, not by an earlier answer.      *)
(***************************************************************************)
EXTENDS Integers, Sequences, FiniteSets, TLC

CONSTANTS NI, NK, MaxConn, MaxOps,
          DbEnabled          \* FALSE: NewServiceMetrics(nil) - every stamp is "disabled"

IPs == 1..NI
Keys == 1..NK
Conns == 1..MaxConn
Pairs == IPs \X Keys
Modes == {"hit", "nocountry", "error"}

VARIABLES dbm,        \* IP -> behaviour of the database for that IP now
          conn, nconn,\* c -> [ip, key, st, db]   db = stamp of the connection's own lookup
          ent,        \* (ip,key) -> [cnt, db]    activeClients entry and the stamp of ITS lookup
          nops, tr
vars == <<dbm, conn, nconn, ent, nops, tr>>

Cur(ip) == IF DbEnabled THEN dbm[ip] ELSE "disabled"
NoConn == [ip |-> 0, key |-> 0, st |-> "none", db |-> ""]
NoEnt  == [cnt |-> 0, db |-> ""]
St(i, d) == [ip |-> i, db |-> d]
None == {}

Init == /\ dbm \in [IPs -> Modes]
        /\ conn = [c \in Conns |-> NoConn] /\ nconn = 0
        /\ ent = [p \in Pairs |-> NoEnt]
        /\ nops = 0
        /\ tr = << [a |-> "Init", dbm |-> dbm, enabled |-> DbEnabled] >>

\* startConnection: looks the IP up only when the client has no entry (metrics.go:449-453)
Start(p) == ent' = [ent EXCEPT ![p] = IF @.cnt = 0 THEN [cnt |-> 1, db |-> Cur(p[1])] ELSE [@ EXCEPT !.cnt = @ + 1]]
Stop(p)  == ent' = [ent EXCEPT ![p] = IF @.cnt <= 1 THEN NoEnt ELSE [@ EXCEPT !.cnt = @ - 1]]

Step(e) == nops < MaxOps /\ nops' = nops + 1 /\ tr' = Append(tr, e)
Ev(a, c, i, k, opened, closed, bytes, udp, tt, ttmode) ==
    [a |-> a, c |-> c, ip |-> i, key |-> k, opened |-> opened, closed |-> closed, bytes |-> bytes, udp |-> udp,
     tt |-> tt, ttmode |-> ttmode]

SetDb(i, m) == /\ DbEnabled /\ dbm[i] # m
               /\ dbm' = [dbm EXCEPT ![i] = m]
               /\ UNCHANGED <<conn, nconn, ent>>
               /\ Step([a |-> "SetDb", c |-> 0, ip |-> i, key |-> 0, m |-> m, opened |-> None, closed |-> None,
                        bytes |-> None, udp |-> None, tt |-> None, ttmode |-> "eq"])

Open(i) == /\ nconn < MaxConn
           /\ LET c == nconn + 1 IN
              /\ conn' = [conn EXCEPT ![c] = [ip |-> i, key |-> 0, st |-> "open", db |-> Cur(i)]]
              /\ nconn' = c
              /\ Step(Ev("Open", c, i, 0, {St(i, Cur(i))}, None, None, None, None, "eq"))
           /\ UNCHANGED <<dbm, ent>>

Auth(c, k) == /\ conn[c].st = "open"
              /\ conn' = [conn EXCEPT ![c].key = k, ![c].st = "authed"]
              /\ Start(<<conn[c].ip, k>>)
              /\ Step(Ev("Auth", c, conn[c].ip, k, None, None, None, None, {St(conn[c].ip, ent'[<<conn[c].ip, k>>].db)}, "subset"))
              /\ UNCHANGED <<dbm, nconn>>

Close(c) == /\ conn[c].st \in {"open", "authed"}
            /\ conn' = [conn EXCEPT ![c].st = "closed"]
            /\ LET me == {St(conn[c].ip, conn[c].db)}
                   p  == <<conn[c].ip, conn[c].key>> IN
               IF conn[c].st = "authed"
               THEN /\ Stop(p)
                    /\ Step(Ev("Close", c, conn[c].ip, conn[c].key, None, me, me, None, {St(p[1], ent[p].db)}, "subset"))
               ELSE /\ UNCHANGED ent
                    /\ Step(Ev("Close", c, conn[c].ip, 0, None, me, me, None, None, "eq"))
            /\ UNCHANGED <<dbm, nconn>>

NatAdd(i, k) == /\ nconn < MaxConn
                /\ LET c == nconn + 1 IN
                   /\ conn' = [conn EXCEPT ![c] = [ip |-> i, key |-> k, st |-> "nat", db |-> Cur(i)]]
                   /\ nconn' = c
                   /\ Start(<<i, k>>)
                   /\ Step(Ev("NatAdd", c, i, k, None, None, None, None, {St(i, ent'[<<i, k>>].db)}, "subset"))
                /\ UNCHANGED dbm

Packet(c) == /\ conn[c].st = "nat"
             /\ LET me == {St(conn[c].ip, conn[c].db)} IN
                Step(Ev("Packet", c, conn[c].ip, conn[c].key, None, None, me, me, None, "eq"))
             /\ UNCHANGED <<dbm, conn, nconn, ent>>

NatRemove(c) == /\ conn[c].st = "nat"
                /\ conn' = [conn EXCEPT ![c].st = "closed"]
                /\ LET p == <<conn[c].ip, conn[c].key>> IN
                   /\ Stop(p)
                   /\ Step(Ev("NatRemove", c, p[1], p[2], None, None, None, None, {St(p[1], ent[p].db)}, "subset"))
                /\ UNCHANGED <<dbm, nconn>>

\* the clock advances by one and the registry is scraped: every active client reports one second under its label
Tick == /\ Step(Ev("Tick", 0, 0, 0, None, None, None, None,
                   {St(p[1], ent[p].db) : p \in {q \in Pairs : ent[q].cnt > 0}}, "eq"))
        /\ UNCHANGED <<dbm, conn, nconn, ent>>

Next == \/ \E i \in IPs, m \in Modes : SetDb(i, m)
        \/ \E i \in IPs : Open(i)
        \/ \E c \in Conns, k \in Keys : Auth(c, k)
        \/ \E c \in Conns : Close(c)
        \/ \E i \in IPs, k \in Keys : NatAdd(i, k)
        \/ \E c \in Conns : Packet(c)
        \/ \E c \in Conns : NatRemove(c)
        \/ Tick
Spec == Init /\ [][Next]_vars

TypeOK == /\ \A c \in Conns : conn[c].st \in {"none", "open", "authed", "nat", "closed"}
          /\ \A p \in Pairs : ent[p].cnt \in 0..MaxConn
\* the entry's stamp is the behaviour in force when the FIRST of its present tunnels started - never older
EntryStampValid == \A p \in Pairs : ent[p].cnt > 0 => ent[p].db \in (Modes \cup {"disabled"})
\* reference count = authenticated open tunnels of that client
RefCount == \A p \in Pairs : ent[p].cnt = Cardinality({c \in Conns : conn[c].st \in {"authed", "nat"} /\ conn[c].ip = p[1] /\ conn[c].key = p[2]})
View == <<dbm, conn, nconn, ent>>
===============================================================================
