---------------------------- MODULE CipherListGen ----------------------------
(* Behaviour generation (spec -> code): each simulated behaviour ends with one Finish step that prints its history as
   JSON.  Used with `tlc -simulate`.  A behaviour is a schedule for harness/cmd/tcpauth `beh`: Snapshot = connect
   from that IP and wait for the server's snapshot, Read50 = deliver the opening bytes, Find = the search (observed),
   Mark = release the server's MarkUsedByClientIP call, Update = install a new list, Serve = let the relay run. *)
EXTENDS CipherListMC, Json
VARIABLE done
GenInit == Init /\ done = FALSE
Quiet   == \A g \in Slots : lk[g].ph \in {"idle", "done"}
Finish  == Quiet /\ nlk = MaxLk /\ ~done /\ done' = TRUE /\ UNCHANGED vars
GenNext == (~done /\ Next /\ UNCHANGED done) \/ Finish
GenSpec == GenInit /\ [][GenNext]_<<vars, done>>
DumpInv == done => PrintT(<<"BEH", ToJson(tr)>>)
===============================================================================
