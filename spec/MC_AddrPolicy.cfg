\* exhaustive, quick tier: every block boundary (+ mapped / embedded forms) as decision query and as TCP destination in
\* every literal encoding; every hostname answer set; every UDP association of <= 3 datagrams over the small destination
\* set (MC_AddrPolicyWide.cfg adds every boundary address as first datagram)
SPECIFICATION Spec
CONSTANTS
  Modes = {"tcp", "udp", "dec"}
  LogLevels = {"info", "debug"}
  MaxPkts = 3
  ValidateKnown = TRUE
  TcpDests <- McTcpDests
  UdpDests <- McUdpDests
  UdpFirst <- McUdpDests
INVARIANTS TypeOK NoPrivateContact TableAgrees TcpStatusClass UdpStatusClass UdpPublicOpens TcpOutcomeAgrees UdpOutcomeAgrees
VIEW View
CHECK_DEADLOCK FALSE
