-------------------------- MODULE LocationLabelTrace --------------------------
(***************************************************************************)
(* Code -> spec.  One event per call of the REAL ipinfo.GetIPInfoFromAddr / *)
(* GetIPInfoFromIP with a recording fake database:                         *)
(*   {"ev":"Label","entry":e,"cls":c,"db":d,"label":l,"consulted":b,      *)
(*    "err":b}   l is "CC" when it equals the country the fake database    *)
(*               was configured to answer, else the literal label          *)
(* The class of each concrete address is known by construction (driver).   *)
(* viols  : lines whose OBSERVED label / database use contradict the       *)
(*          statement's table (property layer)                             *)
(* drifts : lines that differ from the mechanism layer only (error return) *)
(***************************************************************************)
EXTENDS LocationLabel, Json
Trace == ndJsonDeserialize("trace.ndjson")
VARIABLES l, viols, drifts, zoned
tvars == <<l, viols, drifts, zoned>>

TraceInit == /\ l = 1 /\ viols = <<>> /\ drifts = <<>> /\ zoned = ""
             /\ entry = "FromAddr" /\ cls = "niladdr" /\ db = "disabled" /\ pc = "done"
             /\ label = "" /\ consulted = FALSE /\ err = FALSE

\* the mechanism's answer for a row: run the decision steps to completion
MechLabel(e, c, d) ==
    IF e = "FromAddr" /\ c \in {"niladdr", "unsplittable", "nonip", "zoned"} THEN "XA"
    ELSE IF d = "disabled" THEN ""
    ELSE IF c = "nilip" THEN "XA"
    ELSE IF c \in {"loopback", "linklocal", "multicast", "unspecified", "broadcast"} THEN "XL"
    ELSE IF d = "error" THEN "XD" ELSE IF d = "nocountry" THEN "ZZ" ELSE "CC"
MechErr(e, c, d) == (e = "FromAddr" /\ c \in {"niladdr", "unsplittable", "nonip", "zoned"})
                    \/ (d # "disabled" /\ c = "nilip")
                    \/ (d = "error" /\ MayConsult(c, d))

TrLabel ==
    /\ l <= Len(Trace) /\ Trace[l].ev = "Label" /\ l' = l + 1
    /\ LET e == Trace[l] IN
       /\ entry' = e.entry /\ cls' = e.cls /\ db' = e.db /\ pc' = "done"
       /\ label' = e.label /\ consulted' = e.consulted /\ err' = e.err
       /\ LET misuse == e.entry = "FromIP" /\ e.cls = "nilip" /\ e.db = "disabled"
              want == Label(e.cls, e.db)
              \* a zoned literal: reading "A" (cannot be parsed: XA whatever the database) or reading "B" (a non-global
              \* address: "" when disabled, else XL) - but the same reading for every zoned address of the run
              cand == (IF e.label = "XA" THEN {"A"} ELSE {}) \cup
                      (IF e.label = (IF e.db = "disabled" THEN "" ELSE "XL") THEN {"B"} ELSE {})
              zonedOK == e.cls = "zoned" /\ cand # {} /\ (zoned = "" \/ zoned \in cand)
              pv == IF e.consulted /\ ~MayConsult(e.cls, e.db) THEN "db-consulted-for-nonglobal-or-disabled"
                    ELSE IF misuse THEN ""
                    ELSE IF e.cls = "zoned" THEN (IF zonedOK THEN "" ELSE "zoned-inconsistent")
                    ELSE IF e.label # want THEN "label-mismatch"
                    ELSE ""
              dr == e.label # MechLabel(e.entry, e.cls, e.db) \/ e.err # MechErr(e.entry, e.cls, e.db)
                    \/ (MayConsult(e.cls, e.db) /\ ~e.consulted) IN
            /\ viols'  = IF pv # "" THEN Append(viols, [line |-> l, kind |-> pv]) ELSE viols
            /\ drifts' = IF dr THEN Append(drifts, l) ELSE drifts
            /\ zoned'  = IF e.cls = "zoned" /\ zoned = "" /\ cand # {} THEN CHOOSE x \in cand : TRUE ELSE zoned

\* ---- labels of the REAL collectors' series (histories of LocationLabelHist replayed on prometheus.NewServiceMetrics) ----
\*   {"ev":"LabelSet","family":f,"mode":"eq"|"subset","want":[{"cls":c,"db":d,"cc":country}..],"got":[label..]}
\*      want = the lookups (class of the client, database behaviour in force at THAT lookup) that feed family f in
\*             this step, as the model says; got = the location labels whose series of f grew (or appeared) in this step
\*   {"ev":"Consulted","cls":[c..],"enabled":b}   classes of the IPs the database was asked for during this step
SeqSet(q) == {q[i] : i \in 1..Len(q)}
WantLabel(w) == IF Label(w.cls, w.db) = "CC" THEN w.cc ELSE Label(w.cls, w.db)
TrLabelSet ==
    /\ l <= Len(Trace) /\ Trace[l].ev = "LabelSet" /\ l' = l + 1
    /\ LET e == Trace[l]
           want == {WantLabel(w) : w \in SeqSet(e.want)}
           got == SeqSet(e.got)
           bad == IF e.mode = "eq" THEN want # got ELSE ~(got \subseteq want) IN
         viols' = IF bad THEN Append(viols, [line |-> l, kind |-> "series-label-mismatch"]) ELSE viols
    /\ UNCHANGED <<vars, drifts, zoned>>
TrConsulted ==
    /\ l <= Len(Trace) /\ Trace[l].ev = "Consulted" /\ l' = l + 1
    /\ LET e == Trace[l]
           bad == \E c \in SeqSet(e.cls) : ~MayConsult(c, IF e.enabled THEN "hit" ELSE "disabled") IN
         viols' = IF bad THEN Append(viols, [line |-> l, kind |-> "db-consulted-for-nonglobal-or-disabled"]) ELSE viols
    /\ UNCHANGED <<vars, drifts, zoned>>

\* ---- scrapes concurrent with the first registration of a client (schedules of LocationLabelRace on the real collectors) ----
\*   {"ev":"ScrapeSet","enabled":b,"mode":"eq"|"subset","want":[{"cls":c,"db":d,"cc":country}..],"got":[label..]}
\*      got = the location labels of ALL series of tunnel_time_seconds_per_location that this scrape exported;
\*      want = the final labels of the clients whose registration has begun (subset: a scrape that overlapped a
\*      registration; eq: a sequential scrape after it).  Property layer (LocationLabelRace!NoUnsetLocation /
\*      OneLocationPerClient on what the real scrape exported): with lookup enabled the empty location never appears,
\*      and a client is never reported under a label other than the one of its class / database behaviour.
TrScrapeSet ==
    /\ l <= Len(Trace) /\ Trace[l].ev = "ScrapeSet" /\ l' = l + 1
    /\ LET e == Trace[l]
           want == {WantLabel(w) : w \in SeqSet(e.want)}
           got == SeqSet(e.got)
           pv == IF e.enabled /\ "" \in got THEN "empty-location-with-lookup-enabled"
                 ELSE IF ~(got \subseteq want) \/ (e.mode = "eq" /\ want # got) THEN "series-label-mismatch"
                 ELSE "" IN
         viols' = IF pv # "" THEN Append(viols, [line |-> l, kind |-> pv]) ELSE viols
    /\ UNCHANGED <<vars, drifts, zoned>>

TraceSpec == TraceInit /\ [][TrLabel \/ TrLabelSet \/ TrConsulted \/ TrScrapeSet]_<<vars, tvars>>
Report == (l = Len(Trace) + 1) =>
            PrintT(<<"RESULT", ToJson([lines |-> l - 1, viols |-> viols, drifts |-> drifts])>>)
TraceAccepted == TLCGet("stats").diameter - 1 = Len(Trace)
===============================================================================
