\* C14 family (thorough)
SPECIFICATION Spec
CONSTANTS
  Clients = {1, 2}
  IPOf <- MCIPOf
  Keys = {1, 2}
  InitList <- MCInitList
  SaltSz <- MCSaltSz
  Senders = {1, 2, 3, 6}
  Targets = {1, 2, 3}
  DnsPort = {2, 6}
  Allowed = {1, 2, 3}
  Unsendable = {3}
  DisarmFirst = TRUE
  Fam <- MCFam
  DgAlpha <- DgC14
  RpAlpha <- RpC14
  MidAlpha <- MidC14
  Sync = FALSE
  T = 2
  DNST = 3
  Ticks = {1, 2}
  MaxNow = 4
  MaxDg = 3
  MaxRp = 1
  MaxAssoc = 3
  Slack = 0
  Bound = 0
  ZonedPanics = FALSE
INVARIANTS TypeOK MechNat DeadlineMonotone WriteExtends NoEarlyRemoval NoEarlyClose RemoveOnce ReclaimedInTime CloseOnce FastCloseRule Usable AllReclaimed ShutdownReclaimed OnePerClient MetricsLanguage NoCrash HandleTotal
PROPERTIES FailureIsolated
VIEW View
CHECK_DEADLOCK FALSE
