SPECIFICATION GenSpec
CONSTANTS
  IPs = {1, 2, 3}
  Slots = {1, 2, 3}
  Shapes <- ShapesG
  Openers <- OpenersG
  MaxUpd = 2
  MaxLk = 6
INVARIANTS DumpInv
CHECK_DEADLOCK FALSE
