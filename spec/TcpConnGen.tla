------------------------------ MODULE TcpConnGen ------------------------------
(* Behaviour generation (spec -> code).  A behaviour ends with one Finish step that prints the action history as
   JSON; harness/cmd/tcpconn performs the environment actions (Connect, CSend, CFin, TSend, TFin, TRst, Tick,
   CloseListener) on real sockets in this order and, before each of them, waits for the observable actions that
   precede it (Open, MAuth, MProbe, MClosed, Dial, TRecv, TSawFin, CRecv, CSawFin, CClose, ServeReturn). *)
EXTENDS TcpConn, Json
VARIABLE done
GenInit == Init /\ done = FALSE
Finish == Terminal /\ ~done /\ done' = TRUE /\ UNCHANGED vars
GenNext == \/ (\E c \in Conns : EnvC(c) \/ MainC(c) \/ AuxC(c)) /\ UNCHANGED done
           \/ (CloseListener \/ Serve \/ Tick) /\ UNCHANGED done
           \/ Finish
GenSpec == GenInit /\ [][GenNext]_<<vars, done>>
Scenario == [c \in Conns |-> [hs |-> st[c].hs, tk |-> st[c].tk]]
DumpInv == done => PrintT(<<"BEH", ToJson([sc |-> Scenario, tr |-> tr])>>)
===============================================================================
