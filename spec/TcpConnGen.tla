------------------------------ MODULE TcpConnGen ------------------------------
(* Behaviour generation (spec -> code).  A behaviour ends with one Finish step that prints the action history as
   JSON; harness/cmd/tcpconn performs the environment actions (Connect, CSend, CFin, CRst, CPause, CResume, TSend, TFin, TRst, TClose, TPause, TResume, Tick,
   CloseListener) on real sockets in this order and, before each of them, waits for the observable actions that
   precede it (Open, MAuth, MProbe, MClosed, Dial, TRecv, TSawFin, CRecv, CSawFin, CClose, ServeReturn). *)
EXTENDS TcpConn, Json
VARIABLE done
GenInit == Init /\ done = FALSE
Finish == Terminal /\ ~done /\ done' = TRUE /\ UNCHANGED vars
GenNext == \/ (\E c \in Conns : EnvC(c) \/ MainC(c) \/ AuxC(c)) /\ UNCHANGED done
           \/ (CloseListener \/ Serve \/ Tick) /\ UNCHANGED done
           \/ Finish
GenSpec == GenInit /\ [][GenNext]_<<vars, done>>
Scenario == [c \in Conns |-> [hs |-> st[c].hs, tk |-> st[c].tk]]
DumpInv == done => PrintT(<<"BEH", ToJson([sc |-> Scenario, tr |-> tr])>>)
\* CONSTRAINT of Gen_TcpConn_C06NoFin.cfg: clients that never half-close (random walks rarely leave a client silent until
\* its deadline otherwise)
NoFin == \A c \in Conns : ~st[c].cfin
\* ACTION_CONSTRAINTs that steer random walks into orders they rarely take by themselves (each is a restriction of the
\* environment only; the handler's actions are never constrained):
SendsData(c) == Len(ob'[c].csent) > Len(ob[c].csent) /\ ob'[c].csent[Len(ob'[c].csent)].k = "data"
\* the client sends its data chunks only after the target has closed completely (writes to the target are lost, then fail)
DataOnlyAfterTClose == \A c \in Conns : SendsData(c) => st[c].tcl # "no"
\* the client sends its data chunks only after it has seen the target's half-close (target ends first, upload goes on)
DataOnlyAfterTargetFin == \A c \in Conns : SendsData(c) => Has(ob[c].clog, 0)
\* the client sends a chunk that fails authentication only after it has seen the target's half-close (the target replied
\* and finished first; the proxy legitimately passed the FIN on), and keeps the connection open
SendsBad(c) == Len(ob'[c].csent) > Len(ob[c].csent) /\ ob'[c].csent[Len(ob'[c].csent)].k \in {"bad", "badaddr"}
BadOnlyAfterTargetFin == \A c \in Conns : SendsBad(c) => Has(ob[c].clog, 0)
\* containment scenarios: connection 2 arrives only after connection 1 has been dialled (where the harness injects a fault)
SecondAfterFirstDial == (2 \in Conns /\ 1 \in Conns) => ((st'[2].pc # "idle" /\ st[2].pc = "idle") => ob[1].dials > 0)
\* ... and the listener is closed only when every connection has been served
Containment == SecondAfterFirstDial /\ ((lst' = "closed" /\ lst = "open") => \A c \in Conns : st[c].pc = "done")
\* a receiver that stopped reading comes back only after more than the handshake timeout has passed (a write that blocks
\* longer than any timeout the handler knows), and the peers do not end their streams while the other side is away
ResumeLate == \A c \in Conns : /\ (st[c].tpz > 0 /\ st'[c].tpz <= 0) => now >= st[c].tpz + Timeout
                               /\ (st[c].cpz > 0 /\ st'[c].cpz <= 0) => now >= st[c].cpz + Timeout
\* pauses begin before any data has been delivered to that receiver
PauseFirst == \A c \in Conns : /\ (st'[c].tpz > 0 /\ st[c].tpz = 0) => DataOf(ob[c].tlog) = <<>>
                               /\ (st'[c].cpz > 0 /\ st[c].cpz = 0) => DataOf(ob[c].clog) = <<>>
PausedReceiver == ResumeLate /\ PauseFirst
\* the listener is closed (accept reports net.ErrClosed, StreamServe cancels the handlers' context) while a connection that
\* has not authenticated is being read / absorbed
CloseWhileAbsorbing == (lst' = "closed" /\ lst = "open") => \E c \in Conns : st[c].pc \in {"read50", "absorb"}
\* a write of the relay fails part-way: the receiver stops reading, the sender keeps sending, then the receiver resets
ResetWhilePaused == \A c \in Conns : /\ (st'[c].trst /\ ~st[c].trst) => (st[c].tpz > 0 /\ ONData(ob[c]) > 0)
                                     /\ (st'[c].crst /\ ~st[c].crst) => (st[c].cpz > 0 /\ ob[c].tsent > 0)
                                     /\ (st[c].tpz > 0 => st'[c].tpz > 0) /\ (st[c].cpz > 0 => st'[c].cpz > 0)
WriteFails == ResetWhilePaused /\ PauseFirst
\* the target speaks only after the handshake deadline of the connection has long passed (the relay outlives it)
TargetSendsLate == \A c \in Conns : ob'[c].tsent > ob[c].tsent => now > ob[c].acceptAt + Timeout
\* and the client does not end the connection before the target has spoken
ClientFinAfterTarget == \A c \in Conns : (st'[c].cfin /\ ~st[c].cfin) => (ob[c].tsent > 0 \/ st[c].tgt # "up")
LateRelay == TargetSendsLate /\ ClientFinAfterTarget
\* Model finding -> behaviour.  With DrainMode = "inner" (tcp.go:307 as written) TLC finds a state in which a client that
\* keeps an authenticated-but-invalid stream open sees the proxy's FIN, the target having closed only in response to the
\* proxy's FIN.  Exhaustive BFS stops at the shortest such behaviour and prints it; c06 replays it on the real code.
DrainWitness == \E c \in Conns : /\ MustAuth(st[c], ob[c]) /\ OHasBad(ob[c]) /\ ~st[c].cfin
                                 /\ Has(ob[c].clog, 0) /\ ob[c].tfinPolite
\* the history does not distinguish states: BFS keeps the history of the first (a shortest) path to each state
GenView == <<st, ob, now, lst, srv, done>>
WitnessDump == DrainWitness => (PrintT(<<"BEH", ToJson([sc |-> Scenario, tr |-> tr])>>) /\ FALSE)
===============================================================================
