SPECIFICATION Spec
CONSTANTS
  Hashes = {1, 2, 3, 4, 5}
  Caps = {0, 1, 2, 3, 4}
  MaxOps = 9
INVARIANTS TypeOK RecentRefused FreshAccepted RememberedWereSeen
VIEW View
CHECK_DEADLOCK FALSE
