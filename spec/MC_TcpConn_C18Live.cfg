SPECIFICATION LiveSpec
CONSTANTS
  Conns = {1, 2}
  HsKinds = {"valid", "garbage"}
  TgtKinds = {"ok", "refuse"}
  MaxC = 1
  MaxT = 1
  MaxTok = 3
  AllowBad = TRUE
  AllowSplit = FALSE
  AllowRst = FALSE
  Timeout = 2
  MaxNow = 2
  DrainMode = "raw"
  Strict = TRUE
  WithServe = TRUE
  Hist = FALSE
PROPERTIES C18_Terminates C18_ServeReturns
