SPECIFICATION LiveSpec
CONSTANTS
  Conns = {1, 2}
  HsKinds = {"valid", "garbage"}
  TgtKinds = {"ok", "refuse"}
  MaxC = 0
  MaxT = 0
  MaxTok = 2
  AllowBad = FALSE
  AllowSplit = FALSE
  AllowRst = FALSE
  AllowTClose = FALSE
  AllowCRst = FALSE
  AllowPause = FALSE
  Planned = FALSE
  Timeout = 2
  MaxNow = 0
  DrainMode = "raw"
  Strict = TRUE
  WithServe = TRUE
  Hist = FALSE
  SlackEarly = 0
  SlackLate = 0
  SlackSched = 0
PROPERTIES C18_Terminates C18_ServeReturns
