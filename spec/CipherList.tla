------------------------------ MODULE CipherList ------------------------------
(***************************************************************************)
(* service/cipher_list.go (the MRU key list shared by all connections of   *)
(* a service) and its use by the trial-decryption key search               *)
(* service/tcp.go:75-113 findAccessKey/findEntry (same shape in            *)
(* service/udp.go:63-80 findAccessKeyUDP, where Read50 is the datagram).   *)
(*                                                                         *)
(* Mechanism layer - one action per critical section / step of the code:   *)
(*   Update(s)        cipher_list.go:114-118  cl.list = src under Lock     *)
(*   Snapshot(g,ip,o) cipher_list.go:83-103   two passes under RLock       *)
(*   Read50(g)        tcp.go:78-81            io.ReadFull of 50 bytes      *)
(*   Find(g)          tcp.go:98-113           first entry OF THE SNAPSHOT  *)
(*                                            that decrypts the length     *)
(*   Mark(g)          cipher_list.go:105-112  MoveToFront + lastClientIP   *)
(*                                            under Lock                   *)
(*   Serve(g)         tcp.go:348-367          everything an authenticated  *)
(*                                            client gets (dial, bytes)    *)
(* An element token stands for one *list.Element together with its         *)
(* *CipherEntry; every Update brings NEW elements (container/list: an      *)
(* element remembers the list it belongs to, MoveToFront of an element of  *)
(* another list is a no-op - list.go `if e.list != l`).                    *)
(*                                                                         *)
(* Property layer (C01), over what a client / API caller can see:          *)
(*   Sound, Complete, SnapshotIsPermutation, NoAuthNoEffect                *)
(***************************************************************************)
EXTENDS Integers, Sequences, FiniteSets, TLC

CONSTANTS IPs,      \* client IP tokens (positive integers; 0 = the zero netip.Addr, never matches)
          Slots,    \* lookup slots = goroutines that may be inside findAccessKey at the same time
          Shapes,   \* key lists that the constructor / Update may install: sequences of [name, cls, sec]
          Openers,  \* opening byte strings: [kind, cls, sec]
          MaxUpd,   \* bound on Update calls after the initial one
          MaxLk     \* bound on lookups started

(* cipher classes: 1 chacha20-ietf-poly1305, 2 aes-256-gcm, 3 aes-192-gcm, 4 aes-128-gcm  (SDK cipher.go:44-49) *)
Classes  == 1..4
SaltSize == <<32, 32, 24, 16>>
TagSize  == 16
BytesForKeyFinding == 50
\* tcp.go:70-73: provided >= bytesForKeyFinding >= required for every cipher
ASSUME \A c \in Classes : /\ SaltSize[c] + 2 + TagSize <= BytesForKeyFinding
                          /\ SaltSize[c] + 2 + 2 * TagSize >= BytesForKeyFinding

VARIABLES list,    \* cl.list: sequence of element tokens, front first
          gen,     \* identity of the current list object (number of Updates so far)
          ent,     \* element token -> [name, cls, sec, gen]   (immutable part of CipherEntry + Element.list)
          lastIP,  \* element token -> lastClientIP (0 = unset)
          lk,      \* slot -> lookup in flight
          nupd, nlk,
          tr       \* behaviour history (hidden by VIEW)

vars == <<list, gen, ent, lastIP, lk, nupd, nlk, tr>>

NoOp   == [kind |-> "none", cls |-> 0, sec |-> 0]
\* at = generation of the list that was current when the snapshot was taken (ghost, for the property layer)
IdleLk == [ph |-> "idle", ip |-> 0, op |-> NoOp, snap |-> <<>>, at |-> 0, elt |-> 0, res |-> 0,
           st |-> "", dial |-> FALSE, wrote |-> FALSE]
\* a finished lookup keeps what the client / the metrics saw; the working data of the search is dropped
Finished(l, st, res, eff) == [IdleLk EXCEPT !.ph = "done", !.op = l.op, !.at = l.at, !.st = st, !.res = res,
                                            !.dial = eff, !.wrote = eff]

Range(s) == {s[i] : i \in 1..Len(s)}
IsPerm(a, b) == /\ Len(a) = Len(b)
                /\ Range(a) = Range(b)
                /\ Cardinality(Range(a)) = Len(a)

(* ---------------------------------------------------------------- mechanism *)
\* cipher_list.go:78-81
MatchesIP(e, ip) == ip # 0 /\ lastIP[e] = ip

\* cipher_list.go:86-102: first pass = entries whose last client IP is this IP, second pass = the others, both in
\* list (recency) order
SnapshotOrder(ip) == LET M(e) == MatchesIP(e, ip)
                         N(e) == ~MatchesIP(e, ip)
                     IN SelectSeq(list, M) \o SelectSeq(list, N)

\* tcp.go:104: the search uses the first saltSize+2+tagSize bytes, sizes taken from the ENTRY's cipher
SaltSizeUsed(e) == SaltSize[ent[e].cls]
\* An opener made for (cls, sec) decrypts under entry e iff same AEAD, same secret and the prefix handed to Unpack
\* has the length the client used.  Corrupted / foreign / random openers decrypt under nothing (AEAD assumption).
Decrypts(e, op) == /\ op.kind = "valid"
                   /\ ent[e].cls = op.cls /\ ent[e].sec = op.sec
                   /\ SaltSizeUsed(e) = SaltSize[op.cls]

\* container/list MoveToFront
MoveToFront(l, e) == LET R(x) == x # e IN <<e>> \o SelectSeq(l, R)

UpdateCore(s) ==
  LET n == Len(ent) IN
  /\ ent'    = ent \o [i \in 1..Len(s) |-> [name |-> s[i].name, cls |-> s[i].cls, sec |-> s[i].sec, gen |-> gen + 1]]
  /\ lastIP' = lastIP \o [i \in 1..Len(s) |-> 0]
  /\ list'   = [i \in 1..Len(s) |-> n + i]
  /\ gen'    = gen + 1
  /\ UNCHANGED lk

SnapshotCore(g, ip, op) ==
  /\ lk[g].ph \in {"idle", "done"}
  /\ lk' = [lk EXCEPT ![g] = [IdleLk EXCEPT !.ph = "snapped", !.ip = ip, !.op = op,
                                            !.snap = SnapshotOrder(ip), !.at = gen]]
  /\ UNCHANGED <<list, gen, ent, lastIP>>

\* fewer than 50 bytes before EOF ("short") or before the read deadline ("stall"): ERR_CIPHER without a search
ReadFails(op) == op.kind \in {"short", "stall"}
Read50Core(g) ==
  /\ lk[g].ph = "snapped"
  /\ lk' = [lk EXCEPT ![g] = IF ReadFails(@.op) THEN Finished(@, "ERR_CIPHER", 0, FALSE)
                                                ELSE [@ EXCEPT !.ph = "read"]]
  /\ UNCHANGED <<list, gen, ent, lastIP>>

Hits(g) == {i \in 1..Len(lk[g].snap) : Decrypts(lk[g].snap[i], lk[g].op)}
FirstHit(g) == LET h == Hits(g) IN IF h = {} THEN 0 ELSE lk[g].snap[CHOOSE i \in h : \A j \in h : i <= j]
FindCore(g) ==
  /\ lk[g].ph = "read"
  /\ LET e == FirstHit(g) IN
       lk' = [lk EXCEPT ![g] = IF e = 0 THEN Finished(@, "ERR_CIPHER", 0, FALSE)
                                        ELSE [@ EXCEPT !.ph = "found", !.elt = e]]
  /\ UNCHANGED <<list, gen, ent, lastIP>>

\* cipher_list.go:105-112.  e.list != l  <=>  the element was created for another list generation: MoveToFront is
\* then a no-op (container/list), only the stale entry's lastClientIP changes
MarkEffect(e, ip) == /\ list'   = IF ent[e].gen = gen THEN MoveToFront(list, e) ELSE list
                     /\ lastIP' = [lastIP EXCEPT ![e] = ip]
MarkCore(g) ==
  /\ lk[g].ph = "found"
  /\ LET e == lk[g].elt IN
       /\ MarkEffect(e, lk[g].ip)
       /\ lk' = [lk EXCEPT ![g] = [Finished(@, "OK", ent[e].name, FALSE) EXCEPT !.ph = "authed"]]
  /\ UNCHANGED <<gen, ent>>

\* what only an authenticated client gets: the target is dialled and bytes flow back
ServeCore(g) ==
  /\ lk[g].ph = "authed"
  /\ lk' = [lk EXCEPT ![g] = Finished(@, "OK", @.res, TRUE)]
  /\ UNCHANGED <<list, gen, ent, lastIP>>

(* ---------------------------------------------------------------- behaviours *)
Update(s) == /\ nupd < MaxUpd
             /\ UpdateCore(s)
             /\ nupd' = nupd + 1 /\ UNCHANGED nlk
             /\ tr' = Append(tr, [a |-> "Update", shape |-> s, first |-> Len(ent) + 1])

\* slots are interchangeable: a new connection takes the lowest free one (symmetry breaking)
FreeSlot(g) == /\ lk[g].ph \in {"idle", "done"}
               /\ \A h \in Slots : lk[h].ph \in {"idle", "done"} => g <= h
Snapshot(g, ip, op) == /\ nlk < MaxLk /\ FreeSlot(g)
                       /\ SnapshotCore(g, ip, op)
                       /\ nlk' = nlk + 1 /\ UNCHANGED nupd
                       /\ tr' = Append(tr, [a |-> "Snapshot", g |-> g, ip |-> ip, op |-> op, order |-> lk'[g].snap])

Read50(g) == /\ Read50Core(g) /\ UNCHANGED <<nupd, nlk>>
             /\ tr' = Append(tr, [a |-> "Read50", g |-> g, ok |-> ~ReadFails(lk[g].op)])
Find(g)   == /\ FindCore(g) /\ UNCHANGED <<nupd, nlk>>
             /\ tr' = Append(tr, [a |-> "Find", g |-> g, e |-> lk'[g].elt])
Mark(g)   == /\ MarkCore(g) /\ UNCHANGED <<nupd, nlk>>
             /\ tr' = Append(tr, [a |-> "Mark", g |-> g, e |-> lk[g].elt, moved |-> (ent[lk[g].elt].gen = gen)])
Serve(g)  == /\ ServeCore(g) /\ UNCHANGED <<nupd, nlk>>
             /\ tr' = Append(tr, [a |-> "Serve", g |-> g, name |-> lk[g].res])

Init == /\ \E s \in Shapes :
             /\ ent    = [i \in 1..Len(s) |-> [name |-> s[i].name, cls |-> s[i].cls, sec |-> s[i].sec, gen |-> 1]]
             /\ lastIP = [i \in 1..Len(s) |-> 0]
             /\ list   = [i \in 1..Len(s) |-> i]
             /\ tr     = << [a |-> "Update", shape |-> s, first |-> 1] >>
        /\ gen = 1
        /\ lk = [g \in Slots |-> IdleLk]
        /\ nupd = 0 /\ nlk = 0

Next == \/ \E s \in Shapes : Update(s)
        \/ \E g \in Slots :
             \/ \E ip \in IPs, op \in Openers : Snapshot(g, ip, op)
             \/ Read50(g) \/ Find(g) \/ Mark(g) \/ Serve(g)

Spec == Init /\ [][Next]_vars

(* ---------------------------------------------------------------- property layer (C01) *)
\* entries of list generation k that carry exactly the opener's cipher and secret
KeyIn(op, k) == {e \in 1..Len(ent) : ent[e].gen = k /\ ent[e].cls = op.cls /\ ent[e].sec = op.sec}

\* the connection is attributed to an ID configured with exactly the client's cipher and secret in the list that was
\* current when the search began
SoundOf(l) == l.res # 0 => /\ l.op.kind = "valid"
                           /\ \E e \in KeyIn(l.op, l.at) : ent[e].name = l.res
Sound == \A g \in Slots : SoundOf(lk[g])

\* a stream encrypted under a key of that list is authenticated
CompleteOf(l) == (l.ph = "done" /\ l.op.kind = "valid" /\ KeyIn(l.op, l.at) # {}) => l.res # 0
Complete == \A g \in Slots : CompleteOf(lk[g])

\* the per-connection snapshot is the current list, reordered
GenEnts(k) == {e \in 1..Len(ent) : ent[e].gen = k}
SnapPermOf(l) == /\ Len(l.snap) = Cardinality(GenEnts(l.at))
                 /\ Range(l.snap) = GenEnts(l.at)
SnapshotIsPermutation == \A g \in Slots : lk[g].ph \in {"snapped", "read", "found"} => SnapPermOf(lk[g])

\* nothing for the unauthenticated: no dial, no byte
NoAuthNoEffect == \A g \in Slots : (lk[g].dial \/ lk[g].wrote) => (lk[g].res # 0 /\ lk[g].st = "OK")
\* an opener that is valid under no key of the list is refused
InvalidRefused == \A g \in Slots : (lk[g].ph = "done" /\ (lk[g].op.kind # "valid" \/ KeyIn(lk[g].op, lk[g].at) = {}))
                                      => (lk[g].res = 0 /\ lk[g].st = "ERR_CIPHER" /\ ~lk[g].dial /\ ~lk[g].wrote)

(* mechanism invariants (documentation of the design; a failure on a recorded trace is drift) *)
ListWellFormed == /\ Cardinality(Range(list)) = Len(list)
                  /\ \A i \in 1..Len(list) : list[i] \in 1..Len(ent) /\ ent[list[i]].gen = gen
                  /\ Len(lastIP) = Len(ent)
\* a Mark that arrives after an Update leaves the new list alone
TypeOK == /\ gen \in 1..(MaxUpd + 1)
          /\ \A g \in Slots : lk[g].ph \in {"idle", "snapped", "read", "found", "authed", "done"}
                               /\ lk[g].at \in 0..gen

View == <<list, gen, ent, lastIP, lk, nupd, nlk>>
===============================================================================
