SPECIFICATION GenSpec
CONSTANTS
  ConfigSet <- CatOk
  KeyCS <- MCKeyCS
  KeyID <- MCKeyID
  Listeners <- NoListeners
  MaxLoads = 4
  ZombieOnFail = FALSE
INVARIANTS DumpInv
CHECK_DEADLOCK FALSE
