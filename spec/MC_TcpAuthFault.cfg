\* exhaustive, quick: entropy faults (EntropyFails) - 5 keys, 2 connections, every salt choice
SPECIFICATION Spec
CONSTANTS
  Keys <- KeysQ
  Conns = {1, 2}
  CacheModes = {"nil", "zero", "on"}
  MaxSalt = 6
  Faults = TRUE
  MaxInFlight = 2
INVARIANTS TypeOK RespSaltsFresh RespSaltsRecognised ReflectedNeverAuthenticated StatusClasses ProbeNoEffect
VIEW View
CHECK_DEADLOCK FALSE
