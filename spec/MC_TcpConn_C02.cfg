\* C02 exhaustive: 1 connection, <=3 chunks each way, every order of speaking / half-closing / copy-loop interleaving
SPECIFICATION Spec
CONSTANTS
  Conns = {1}
  HsKinds = {"valid"}
  TgtKinds = {"ok"}
  MaxC = 3
  MaxT = 3
  MaxTok = 7
  AllowBad = FALSE
  AllowSplit = TRUE
  AllowRst = FALSE
  Timeout = 2
  MaxNow = 0
  DrainMode = "inner"
  Strict = FALSE
  WithServe = FALSE
  Hist = FALSE
INVARIANTS TypeOK C02_TargetPrefix C02_ClientPrefix C02_FinToTargetAfterAll C02_FinToClientAfterAll C02_Independent C02_CompleteAtClose
INVARIANTS C15_Language C15_AuthOnlyIfAuthenticated C15_ProbeIffFailed C15_ProbeBytes C15_Status C15_OkIffComplete C15_Counters
INVARIANTS C18_NoLeak C18_ServeWaits C18_SocketsFollowHandler
VIEW View
