SPECIFICATION GenSpec
CONSTANTS
  Conns = {1}
  HsKinds = {"valid"}
  TgtKinds = {"ok"}
  MaxC = 3
  MaxT = 3
  MaxTok = 7
  AllowBad = FALSE
  AllowSplit = TRUE
  AllowRst = FALSE
  AllowTClose = FALSE
  AllowCRst = FALSE
  AllowPause = FALSE
  Planned = TRUE
  Timeout = 2
  MaxNow = 0
  DrainMode = "inner"
  Strict = TRUE
  WithServe = FALSE
  Hist = TRUE
  SlackEarly = 0
  SlackLate = 0
  SlackSched = 0
INVARIANTS DumpInv
ACTION_CONSTRAINT DataOnlyAfterTargetFin
CHECK_DEADLOCK FALSE
