------------------------------- MODULE MC_Reload -------------------------------
EXTENDS Reload
\* keys: 1 chacha/s1 id1, 2 aes-128/s2 id2, 3 aes-256/s3 id3, 4 chacha/s1 id4 (same cipher+secret as key 1),
\*       5 unusable cipher, 6 aes-192/s4 id6, 7 aes-256/s1 id7 (the SECRET of key 1 under another cipher: a different key),
\*       8 aes-256/s1 id1 (key 1 itself - same id, same secret - after its cipher was changed)
MCKeyCS == <<1, 2, 3, 1, 0, 4, 5, 5>>
MCKeyID == <<1, 2, 3, 4, 5, 6, 7, 1>>
\* addresses 1..3: service addresses; 4, 5: legacy ports (":port", all interfaces)
T(a) == <<"tcp", a>>
U(a) == <<"udp", a>>
MCListeners == {T(1), U(1), T(2), U(2), T(3), U(3), T(4), U(4), T(5), U(5)}
SvcLs6 == {T(1), U(1), T(2), U(2), T(3), U(3)}
SvcLs3 == {T(1), U(1), T(2)}
Svc(ks, ls) == [ks |-> ks, ls |-> ls]
Ok(legacy, svcs) == [kind |-> "ok", legacy |-> legacy, svcs |-> svcs]
Cat == {
  Ok(<<>>, << Svc(<<1, 2>>, <<T(1), U(1)>>) >>),
  Ok(<<>>, << Svc(<<1, 4, 3>>, <<T(1), U(1), T(2)>>), Svc(<<2>>, <<T(3), U(3)>>) >>),
  Ok(<<>>, << Svc(<<3>>, <<T(1), U(2)>>) >>),
  Ok(<<>>, << Svc(<<6>>, <<T(2), U(2)>>), Svc(<<1, 5>>, <<T(3)>>) >>),          \* bad cipher in the SECOND service
  Ok(<<>>, << Svc(<<5>>, <<T(1)>>) >>),                                        \* bad cipher in the first service
  [kind |-> "unreadable", legacy |-> <<>>, svcs |-> <<>>],
  [kind |-> "malformed", legacy |-> <<>>, svcs |-> <<>>],
  Ok(<<>>, << Svc(<<1>>, <<T(1), T(1)>>) >>),                                  \* invalid: the same listener twice in one service
  Ok(<<>>, << Svc(<<1>>, <<T(1), U(1)>>), Svc(<<2>>, <<T(2), U(1)>>) >>),      \* invalid: a listener of two services
  Ok(<<>>, << Svc(<<1>>, <<T(1), <<"quic", 2>>>>) >>),                          \* invalid: unsupported listener type
  Ok(<<>>, << Svc(<<3>>, <<T(1), <<"TCP", 2>>>>) >>),                           \* invalid: listener types are matched exactly ("TCP" is not "tcp")
  Ok(<<>>, << Svc(<<2>>, <<<<"Udp", 1>>, T(3)>>) >>),                            \* invalid: the same, first listener
  Ok(<< <<4, 1>> >>, << Svc(<<2>>, <<<<"tcp", 15>>>>) >>),                       \* valid, cannot start: ":P" and "[::]:P" are one socket
  Ok(<<>>, << Svc(<<1>>, <<<<"udp", 14>>>>), Svc(<<2>>, <<<<"udp", 15>>>>) >>),   \* valid, cannot start: "0.0.0.0:P" and "[::]:P"
  Ok(<<>>, << Svc(<<2>>, <<U(11)>>) >>),                                       \* invalid: host is not an IP
  Ok(<<>>, << Svc(<<3>>, <<T(2)>>), Svc(<<1>>, <<T(12)>>) >>),                  \* invalid: address without a port
  Ok(<<>>, << Svc(<<1, 2>>, <<T(13), U(1)>>) >>),                               \* invalid: empty host
  Ok(<< <<4, 1>>, <<4, 2>>, <<5, 3>> >>, <<>>),
  Ok(<< <<4, 6>> >>, << Svc(<<1>>, <<T(1), U(1)>>) >>),
  Ok(<< <<4, 1>>, <<5, 5>> >>, <<>>),                                          \* bad cipher among the legacy keys
  Ok(<<>>, << Svc(<<2, 1>>, <<U(1), T(3)>>), Svc(<<4>>, <<T(2)>>) >>),
  Ok(<<>>, << Svc(<<1, 7, 2>>, <<T(1), U(1)>>), Svc(<<7, 4>>, <<T(2), U(2)>>) >>),
  Ok(<<>>, << Svc(<<8, 2>>, <<T(1), U(1)>>) >>),                                \* the first configuration with the cipher of key 1 changed
  Ok(<< <<4, 8>>, <<4, 2>>, <<5, 3>> >>, <<>>),                                 \* the same for the legacy format
  Ok(<<>>, << Svc(<<8, 5>>, <<T(1), U(1)>>) >>),                                \* fails (bad cipher) after key 8 was built
  Ok(<< <<4, 1>>, <<5, 3>>, <<4, 2>>, <<5, 6>>, <<4, 6>> >>, <<>>),                  \* legacy keys with interleaved ports
  Ok(<< <<5, 2>>, <<4, 3>>, <<5, 1>> >>, << Svc(<<7>>, <<T(1), U(1)>>) >>),
  \* "siblings": the listeners of a configuration above with OTHER keys, failing after that service was processed
  \* (state of a rejected configuration must not leak into the running one)
  Ok(<<>>, << Svc(<<3, 6>>, <<T(1), U(1)>>), Svc(<<1, 5>>, <<T(3)>>) >>),     \* bad cipher in the second service
  Ok(<<>>, << Svc(<<6>>, <<T(1), U(1)>>), Svc(<<2>>, <<T(2), U(3)>>) >>),        \* valid; fails when T(2)/U(3) cannot be bound
  Ok(<< <<4, 3>>, <<5, 6>> >>, << Svc(<<1, 5>>, <<T(2)>>) >>)                   \* legacy ports of another configuration, then a bad cipher
}
\* configurations that load (hand-over scenarios, C11)
CatOk == {
  Ok(<<>>, << Svc(<<1, 2>>, <<T(1), U(1)>>) >>),
  Ok(<<>>, << Svc(<<1, 4, 3>>, <<T(1), U(1), T(2)>>), Svc(<<2>>, <<T(3), U(3)>>) >>),
  Ok(<<>>, << Svc(<<3>>, <<T(1), U(2)>>) >>),
  Ok(<<>>, << Svc(<<3, 1>>, <<T(1), U(1)>>), Svc(<<2, 6>>, <<T(2), U(2)>>) >>),
  Ok(<< <<4, 1>>, <<4, 2>>, <<5, 3>> >>, <<>>),
  Ok(<< <<4, 6>>, <<4, 2>> >>, << Svc(<<1>>, <<T(1), U(1)>>) >>),
  Ok(<<>>, << Svc(<<2, 1>>, <<U(1), T(3)>>), Svc(<<4>>, <<T(2)>>) >>),
  Ok(<<>>, << Svc(<<1, 7>>, <<T(1), U(1)>>), Svc(<<7, 4>>, <<T(2), U(2), T(3)>>) >>),
  Ok(<<>>, << Svc(<<8, 2>>, <<T(1), U(1)>>) >>)
}
NoListeners == {}
\* a small catalogue for the exhaustive quick run
CatSmall == {
  Ok(<<>>, << Svc(<<1, 2>>, <<T(1), U(1)>>) >>),
  Ok(<<>>, << Svc(<<3>>, <<T(1), U(2)>>) >>),
  Ok(<<>>, << Svc(<<6>>, <<T(2), U(2)>>), Svc(<<1, 5>>, <<T(3)>>) >>),
  [kind |-> "malformed", legacy |-> <<>>, svcs |-> <<>>],
  Ok(<< <<4, 6>> >>, << Svc(<<1>>, <<T(1), U(1)>>) >>),
  Ok(<< <<4, 1>>, <<5, 5>> >>, <<>>),
  Ok(<<>>, << Svc(<<3, 6>>, <<T(1), U(1)>>), Svc(<<1, 5>>, <<T(3)>>) >>)
}
===============================================================================
