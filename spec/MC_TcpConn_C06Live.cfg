SPECIFICATION LiveSpec
CONSTANTS
  Conns = {1}
  HsKinds = {"valid", "garbage", "replayC", "replayS"}
  TgtKinds = {"ok"}
  MaxC = 1
  MaxT = 1
  MaxTok = 4
  AllowBad = TRUE
  AllowSplit = FALSE
  AllowRst = FALSE
  AllowTClose = FALSE
  AllowCRst = FALSE
  AllowPause = FALSE
  Planned = FALSE
  Timeout = 2
  MaxNow = 3
  DrainMode = "raw"
  Strict = TRUE
  WithServe = FALSE
  Hist = FALSE
  SlackEarly = 0
  SlackLate = 0
  SlackSched = 0
PROPERTIES C18_Terminates
