------------------------------ MODULE MC_UdpNat ------------------------------
(* Constants for the exhaustive runs of UdpNat (structured constants cannot be written in a .cfg). *)
EXTENDS UdpNat
\* clients 1,2: same IP, different ports; client 3: another IP
MCIPOf == [c \in Clients |-> IF c = 3 THEN 2 ELSE 1]
\* keys: 1 = chacha20 (salt 32), 2 = aes-128 (16), 3 = aes-192 (24)
MCSaltSz == [k \in Keys |-> CASE k = 1 -> 32 [] k = 2 -> 16 [] OTHER -> 24]
MCInitList == [i \in 1..Cardinality(Keys) |-> i]
\* senders: 1 = target A (non-DNS, v4), 2 = target B (port 53, v4), 3 = forbidden target (private), 4 = another port
\* of A's host (v6 family in the model), 5 = stranger bound to a zoned link-local address, 6 = stranger on port 53
MCFam == [s \in Senders |-> CASE s = 4 -> "v6" [] s = 5 -> "zoned" [] OTHER -> "v4"]
D(c, k, hdr, dst, cls) == [c |-> c, k |-> k, hdr |-> hdr, dst |-> dst, cls |-> cls]
R(s, cls) == [s |-> s, cls |-> cls]
\* C03/C04: every client with every key (and with no key), malformed header, forbidden destination, DNS destination
DgC03 == {D(1, 0, TRUE, 1, "1"), D(1, 1, TRUE, 1, "1"), D(1, 3, TRUE, 1, "1"),
          D(2, 2, TRUE, 1, "1"), D(2, 1, TRUE, 1, "1"), D(3, 3, TRUE, 2, "0"),
          D(3, 3, FALSE, 1, "1"), D(2, 2, TRUE, 3, "1")}
RpC03 == {R(1, "1"), R(4, "1000")}
\* C14: one or two clients, DNS and non-DNS destinations, replies from port 53 and from elsewhere
\* (destination 3 in this family: allowed by the validator, but the outbound socket's WriteTo to it fails)
DgC14 == {D(1, 1, TRUE, 1, "1"), D(1, 1, TRUE, 2, "1"), D(2, 2, TRUE, 2, "1"), D(1, 1, TRUE, 3, "1")}
MidC14 == {R(2, "1")}
RpC14 == {R(1, "1"), R(2, "1")}
\* C16/C18: sizes at the boundaries, failing datagrams on live associations, every reply class
DgC16 == {D(1, 1, TRUE, 1, "0"), D(1, 1, TRUE, 1, "max"), D(1, 2, TRUE, 1, "1"), D(1, 1, FALSE, 1, "1"),
          D(1, 1, TRUE, 3, "1"), D(2, 2, TRUE, 2, "1000"), D(2, 0, TRUE, 1, "1")}
RpC16 == {R(1, "0"), R(1, "fit"), R(1, "fit1"), R(1, "big"), R(4, "1000"), R(5, "1")}
DgLong == {D(1, 1, TRUE, 1, "1"), D(1, 1, TRUE, 2, "0"), D(1, 2, TRUE, 1, "1")}
RpLong == {R(2, "1")}
NoMid == {}
=============================================================================
