------------------------------ MODULE MC_UdpNat ------------------------------
(* Constants for the exhaustive runs of UdpNat (structured constants cannot be written in a .cfg). *)
EXTENDS UdpNat
\* clients 1,2: same IP, different ports; client 3: another IP
MCIPOf == [c \in Clients |-> IF c = 3 THEN 2 ELSE 1]
\* keys: 1 = chacha20 (salt 32), 2 = aes-128 (16), 3 = aes-192 (24)
MCSaltSz == [k \in Keys |-> CASE k = 1 -> 32 [] k = 2 -> 16 [] OTHER -> 24]
MCInitList == [i \in 1..Cardinality(Keys) |-> i]
\* senders: 1 = target A (non-DNS, v4), 2 = target B (port 53, v4), 3 = forbidden target (private), 4 = another port
\* of A's host (v6 family in the model), 5 = stranger bound to a zoned link-local address, 6 = stranger on port 53
MCFam == [s \in Senders |-> CASE s = 4 -> "v6" [] s = 5 -> "zoned" [] OTHER -> "v4"]
=============================================================================
