-------------------------------- MODULE UdpNat --------------------------------
(***************************************************************************)
(* service/udp.go: the UDP side of the proxy.                              *)
(*                                                                         *)
(* Mechanism layer (one action per step / critical section of the code):   *)
(*   Handle loop goroutine  H_*   udp.go:132-222 (+ findAccessKeyUDP 63-80,*)
(*                                validatePacket 227-243, natconn.onWrite  *)
(*                                264-285, natmap.Get/set/Add 325-370,     *)
(*                                natmap.Close 372-384)                    *)
(*   one goroutine per association G_*  natmap.Add 362-368, timedCopy      *)
(*                                391-461, natconn.onRead 287-294,         *)
(*                                natmap.del 346-356                       *)
(*   environment: ClientSend, SenderSend, CloseListener, Tick              *)
(* Property layer: predicates over OBSERVATION variables only (what        *)
(* clients, targets and the metrics sink can see): sentC, sentS, outT,     *)
(* outC, mlog, conn + the clock.  UdpNatTrace evaluates the very     *)
(* same predicates on observations recorded from the real code.            *)
(*                                                                         *)
(* Tokens: clients, keys (0 = authenticates under no configured key),      *)
(* targets/senders (address tokens), payload tokens, salt tokens.          *)
(***************************************************************************)
EXTENDS Integers, Sequences, FiniteSets, TLC

CONSTANTS
  Clients,     \* client address tokens (IP and port)
  IPOf,        \* [Clients -> IP token]: same IP different ports / different IPs
  Keys,        \* configured key ids (positive integers)
  InitList,    \* initial order of the key list (sequence over Keys)
  SaltSz,      \* [Keys -> salt size in bytes]   (16, 24, 32)
  Senders,     \* address tokens of everything that can send to an association's socket
  Targets,     \* subset of Senders a client may name as destination
  DnsPort,     \* subset of Senders whose port is 53
  Allowed,     \* subset of Targets accepted by the targetIPValidator
  Unsendable,  \* subset of Allowed to which the outbound socket's WriteTo FAILS (e.g. port 0: EINVAL) - a fault that
               \*   must leave the association, its deadline and its socket as they are
  DisarmFirst, \* TRUE = the code: onWrite disarms the fast-close latch BEFORE it extends the deadline; FALSE = the two
               \*   steps swapped (negative control: a port-53 reply read in between then moves the deadline earlier)
  Fam,         \* [Senders -> {"v4","v6","zoned"}] (+ "name9", "name14": destinations named by a host name of that length)
  DgAlpha,     \* datagrams clients may send: set of [c, k, hdr, dst, cls]; k = 0: authenticates under no configured
               \*   key (unknown key / truncated / garbage); hdr = FALSE: malformed address header;
               \*   cls \in {"0","1","1000","max"} payload size class
  RpAlpha,     \* datagrams senders may send to an association's socket: set of [s, cls],
               \*   cls \in {"0","1","1000","fit","fit1","big"}
  MidAlpha,    \* datagrams that may arrive at an association's socket while the Handle loop is inside WriteTo for it
  Sync,        \* TRUE: the environment acts only when the proxy is quiescent (behaviours for step-synchronous drivers)
  T, DNST,     \* configured NAT timeout, DNS timeout (17 s) in clock units
  Ticks,       \* possible clock advances
  MaxNow, MaxDg, MaxRp, MaxAssoc,   \* bounds (inside Next)
  Slack, Bound,  \* 0 in the model; measurement slack / reclamation bound of real-time traces (UdpNatTrace)
  ZonedPanics  \* TRUE: model of the tree in which a zoned reply source crashes timedCopy (udp.go:425-440)

VARIABLES
  klist, lastIP,        \* cipher_list.go: list order (front first), lastClientIP per key
  nat,                  \* natmap.keyConn: [Clients -> association id or 0]
  as,                   \* [1..MaxAssoc -> association record] (natconn + its goroutine)
  nas,                  \* associations created so far
  h,                    \* Handle-loop goroutine: [pc, d, a]
  inC,                  \* listener socket receive queue (client datagrams)
  inT,                  \* [1..MaxAssoc -> receive queue of the association's socket]
  now, closing, crashed,
  \* observations - one sequence per observer / source, never a guessed cross-goroutine order
  sentC, sentS,         \* what clients / senders sent (environment history)
  outT,                 \* datagrams received by targets (all sent by the Handle loop)
  outC,                 \* [assoc -> datagrams its goroutine sent to clients]
  mlogH,                \* metrics calls made by the Handle loop: CS, NatAdd, PktC
  mlogG,                \* [assoc -> metrics calls of its goroutine: PktT, NatRemove]
  conn,                 \* [assoc -> calls on its outbound PacketConn in call order (observable on a fake conn):
                        \*   [op \in {"dl","wr","rd","cl"}, t, dl, why, x]  x = destination / source token]
  tr                    \* behaviour history for generation (hidden by VIEW)

mech == <<klist, lastIP, nat, as, nas, h, inC, inT, now, closing, crashed>>
obs  == <<sentC, sentS, outT, outC, mlogH, mlogG, conn>>
vars == <<mech, obs, tr>>

Tag == 16
MaxWire == 65507          \* largest UDP payload on IPv4
BufSz == 65536            \* serverUDPBufferSize
MaxAddrLen == 19          \* udp.go:388
\* SOCKS address header: type 1 (IPv4) 1+4+2, type 4 (IPv6) 1+16+2, type 3 (host name of n bytes, Fam = "name<n>") 1+1+n+2
HdrLen(s) == CASE Fam[s] = "v4" -> 7 [] Fam[s] = "name9" -> 13 [] Fam[s] = "name14" -> 18 [] OTHER -> 19
Max(a, b) == IF a > b THEN a ELSE b
Range(s) == {s[i] : i \in 1..Len(s)}
IsDns(s) == s \in DnsPort
NoD == [id |-> 0]
COp(op, dl, why, x) == [op |-> op, t |-> now, dl |-> dl, why |-> why, x |-> x]

\* numeric sizes of the classes
CSz(cls, k, dst) == CASE cls = "0" -> 0 [] cls = "1" -> 1 [] cls = "1000" -> 1000
                      [] cls = "max" -> MaxWire - (IF k \in Keys THEN SaltSz[k] ELSE 32) - HdrLen(dst) - Tag
RSz(cls, k, s) == CASE cls = "0" -> 0 [] cls = "1" -> 1 [] cls = "1000" -> 1000
                    [] cls = "fit"  -> MaxWire - SaltSz[k] - HdrLen(s) - Tag
                    [] cls = "fit1" -> MaxWire - SaltSz[k] - HdrLen(s) - Tag + 1
                    [] cls = "big"  -> MaxWire
\* timedCopy: readBuf = pkt[saltSize+19:], the kernel truncates longer datagrams silently
ReadLen(sz, k) == IF sz > BufSz - SaltSz[k] - MaxAddrLen THEN BufSz - SaltSz[k] - MaxAddrLen ELSE sz
\* Pack needs saltStart+salt+hdr+body+tag <= BufSz, i.e. body <= BufSz - salt - 19 - tag
PackFits(n, k) == n + Tag <= BufSz - SaltSz[k] - MaxAddrLen
WireToClient(n, k, s) == SaltSz[k] + HdrLen(s) + n + Tag
WireOf(k, dst, sz) == (IF k \in Keys THEN SaltSz[k] ELSE 32) + HdrLen(dst) + sz + Tag
WireFromClient(d) == d.wire        \* length of the datagram as the client sent it

FreeAssoc == [st |-> "free", c |-> 0, key |-> 0, dl |-> -1, rd |-> -1, armed |-> TRUE, open |-> FALSE,
              pc |-> "none", cur |-> NoD, victim |-> 0, ns |-> 0]

Init ==
  /\ klist = InitList /\ lastIP = [k \in Keys |-> 0]
  /\ nat = [c \in Clients |-> 0]
  /\ as = [a \in 1..MaxAssoc |-> FreeAssoc] /\ nas = 0
  /\ h = [pc |-> "read", d |-> NoD, a |-> 0, fw |-> FALSE]
  /\ inC = <<>> /\ inT = [a \in 1..MaxAssoc |-> <<>>]
  /\ now = 0 /\ closing = FALSE /\ crashed = FALSE
  /\ sentC = <<>> /\ sentS = <<>> /\ outT = <<>> /\ mlogH = <<>>
  /\ outC = [a \in 1..MaxAssoc |-> <<>>] /\ mlogG = [a \in 1..MaxAssoc |-> <<>>] /\ conn = [a \in 1..MaxAssoc |-> <<>>]
  /\ tr = <<>>

Expired(a) == as[a].dl # -1 /\ now >= as[a].dl
HIdle == h.pc \in {"read", "returned"} /\ inC = <<>> /\ ~(h.pc = "read" /\ closing)
GIdle(a) == as[a].st = "free" \/ as[a].pc \in {"done", "dead"} \/ (as[a].pc = "read" /\ inT[a] = <<>> /\ ~Expired(a))
Quiet == HIdle /\ \A a \in 1..MaxAssoc : GIdle(a)
EnvOK == ~Sync \/ Quiet

(* ------------------------------ environment ------------------------------
   Reduction (by hand): a datagram is handed to a goroutine only when that goroutine is idle with an empty
   queue (sending it earlier only queues it), and the clock advances only when nothing is runnable (a step
   that takes time is the same step taken later).  All races between the Handle loop, the association
   goroutines (expiry, fast close) and shutdown remain. *)
\* a client socket sends one datagram to the listener.  k = 0: encrypted under an unknown key / truncated / garbage
ClientSend(c, k, hdr, dst, cls) ==
  /\ ~closing /\ Len(sentC) < MaxDg /\ EnvOK
  /\ h.pc = "read" /\ inC = <<>>
  /\ nas < MaxAssoc \/ ~(k \in Keys /\ hdr /\ dst \in Allowed)     \* bound: room for the association it may create
  /\ LET d == [id |-> Len(sentC) + 1, c |-> c, k |-> k, hdr |-> hdr, dst |-> dst, sz |-> CSz(cls, k, dst),
               wire |-> WireOf(k, dst, CSz(cls, k, dst)),
               t |-> now,
               la |-> nat[c]] IN      \* the client's live association as the metrics sink knows it (exact when quiescent)
       /\ sentC' = Append(sentC, d)
       /\ inC' = Append(inC, d)
       /\ tr' = Append(tr, [a |-> "CDgram", c |-> c, k |-> k, hdr |-> hdr, dst |-> dst, cls |-> cls])
  /\ UNCHANGED <<klist, lastIP, nat, as, nas, h, inT, now, closing, crashed, sentS, outT, outC, mlogH, mlogG, conn>>

\* some socket s sends a datagram to the outbound socket of association a (the socket must still be bound)
SenderSend(s, a, cls) ==
  /\ Len(sentS) < MaxRp /\ EnvOK
  /\ as[a].st = "used" /\ as[a].open /\ as[a].pc = "read" /\ inT[a] = <<>>
  /\ LET r == [id |-> Len(sentS) + 1, src |-> s, a |-> a, sz |-> RSz(cls, as[a].key, s),
               nw |-> Len(SelectSeq(outT, LAMBDA e : e.a = a)),
               t |-> now,
               rd |-> ReadLen(RSz(cls, as[a].key, s), as[a].key),     \* what the proxy's ReadFrom returns for it (the kernel truncates)
               fits |-> LET n == RSz(cls, as[a].key, s) IN PackFits(n, as[a].key) /\ WireToClient(n, as[a].key, s) <= MaxWire] IN     \* datagrams a target had seen from a by then
       /\ sentS' = Append(sentS, r)
       /\ inT' = [inT EXCEPT ![a] = Append(@, r)]
       /\ tr' = Append(tr, [a |-> "TReply", src |-> s, to |-> as[a].c, as |-> a, cls |-> cls])
  /\ UNCHANGED <<klist, lastIP, nat, as, nas, h, inC, now, closing, crashed, sentC, outT, outC, mlogH, mlogG, conn>>

\* a datagram reaches the socket of association a while the Handle loop is INSIDE natconn.WriteTo for that association
\* (between the two steps of onWrite).  Allowed also under Sync: the virtual-time harness realises exactly this schedule
\* with a gate inside the fake conn's SetReadDeadline.
SenderSendMid(s, a, cls) ==
  /\ Len(sentS) < MaxRp
  /\ h.pc = "send" /\ h.a = a
  /\ as[a].st = "used" /\ as[a].open /\ as[a].pc = "read" /\ inT[a] = <<>>
  /\ \E e \in Range(outT) : e.a = a      \* somebody has seen the association's source port (not before its first datagram)
  /\ LET r == [id |-> Len(sentS) + 1, src |-> s, a |-> a, sz |-> RSz(cls, as[a].key, s),
               nw |-> Len(SelectSeq(outT, LAMBDA e : e.a = a)), t |-> now, rd |-> ReadLen(RSz(cls, as[a].key, s), as[a].key),
               fits |-> TRUE] IN
       /\ sentS' = Append(sentS, r)
       /\ inT' = [inT EXCEPT ![a] = Append(@, r)]
       /\ tr' = Append(tr, [a |-> "TReplyMid", src |-> s, to |-> as[a].c, as |-> a, cls |-> cls])
  /\ UNCHANGED <<klist, lastIP, nat, as, nas, h, inC, now, closing, crashed, sentC, outT, outC, mlogH, mlogG, conn>>

\* the listener is closed; the kernel drops what was queued
CloseListener ==
  /\ ~closing /\ EnvOK
  /\ closing' = TRUE /\ inC' = <<>>
  /\ tr' = Append(tr, [a |-> "Shutdown"])
  /\ UNCHANGED <<klist, lastIP, nat, as, nas, h, inT, now, crashed, obs>>

Tick(d) ==
  /\ now + d <= MaxNow /\ Quiet
  /\ now' = now + d
  /\ tr' = Append(tr, [a |-> "Tick", d |-> d])
  /\ UNCHANGED <<klist, lastIP, nat, as, nas, h, inC, inT, closing, crashed, obs>>

(* ------------------------ Handle loop (udp.go:132-222) ------------------------
   Steps that touch only goroutine-local state are merged into the next step that touches shared state
   (they commute with everything else): ReadFrom+Get; decrypt+validate(+report on failure); WriteTo+report. *)
HU == <<inT, now, closing, crashed, sentC, sentS, outC, mlogG, tr>>   \* never changed by the Handle loop
HIdleRec == [pc |-> "read", d |-> NoD, a |-> 0, fw |-> FALSE]
\* did: the datagram being handled when the call was made
MEv(ev, a, c, key, st, x, y, did) == [ev |-> ev, a |-> a, c |-> c, key |-> key, st |-> st, x |-> x, y |-> y, did |-> did, t |-> now]
CSEv(d, found) == MEv("CS", 0, d.c, 0, IF found THEN "true" ELSE "false", 0, 0, d.id)
\* :213-220 AddPacketFromClient - only when there is an association
PktCEv(d, a, st, ptb) == MEv("PktC", a, d.c, as[a].key, st, WireFromClient(d), ptb, d.id)

\* :139 ReadFrom returns a datagram; :165 nm.Get under RLock
H_RecvLookup ==
  /\ h.pc = "read" /\ inC # <<>>
  /\ LET d == Head(inC) IN
       h' = [pc |-> IF nat[d.c] = 0 THEN "trial" ELSE "decrypt", d |-> d, a |-> nat[d.c], fw |-> FALSE]
  /\ inC' = Tail(inC)
  /\ UNCHANGED <<klist, lastIP, nat, as, nas, outT, mlogH, conn>> /\ UNCHANGED HU

\* cipher_list.go:83-103: keys last used by this IP first, then the others, both in list order
Snapshot(ip) == LET hit == SelectSeq(klist, LAMBDA k : ip # 0 /\ lastIP[k] = ip)
                    rest == SelectSeq(klist, LAMBDA k : ~(ip # 0 /\ lastIP[k] = ip))
                IN hit \o rest
\* udp.go:69 Unpack(dst = textBuf, src = cipherBuf): dst never aliases src, so a failed trial leaves the
\* ciphertext intact for the keys tried after it
Intact(snap, i) == TRUE
MoveToFront(k) == <<k>> \o SelectSeq(klist, LAMBDA x : x # k)
\* :227-243 validatePacket: SplitAddr, ResolveUDPAddr, targetIPValidator (applied on BOTH paths)
ValidateStatus(d) == IF ~d.hdr THEN "ERR_READ_ADDRESS" ELSE IF d.dst \notin Allowed THEN "ERR_ADDRESS" ELSE "OK"

\* :167-182 new client address: findAccessKeyUDP (snapshot, trial decryption key by key into a separate buffer,
\* MarkUsedByClientIP), AddCipherSearch, validatePacket.  No association exists, so nothing is reported on failure.
H_Trial ==
  /\ h.pc = "trial"
  /\ LET d == h.d
         ip == IPOf[d.c]
         snap == Snapshot(ip)
         found == \E i \in 1..Len(snap) : snap[i] = d.k /\ Intact(snap, i)
         vs == ValidateStatus(d) IN
       /\ mlogH' = Append(mlogH, CSEv(d, found))
       /\ klist' = IF found THEN MoveToFront(d.k) ELSE klist
       /\ lastIP' = IF found THEN [lastIP EXCEPT ![d.k] = ip] ELSE lastIP
       /\ h' = IF found /\ vs = "OK" THEN [h EXCEPT !.pc = "open"] ELSE HIdleRec
  /\ UNCHANGED <<nat, as, nas, inC, outT, conn>> /\ UNCHANGED HU

\* :190-202 known client address: ONLY the association's key is tried; validatePacket; failure is reported
\* on the association with proxyTargetBytes = 0
H_Decrypt ==
  /\ h.pc = "decrypt"
  /\ LET d == h.d
         ok == d.k = as[h.a].key
         vs == ValidateStatus(d)
         st == IF ~ok THEN "ERR_CIPHER" ELSE vs IN
       /\ mlogH' = Append(mlogH, CSEv(d, ok)) \o (IF st = "OK" THEN <<>> ELSE <<PktCEv(d, h.a, st, 0)>>)
       /\ h' = IF st = "OK" THEN [h EXCEPT !.pc = "latch"] ELSE HIdleRec
  /\ UNCHANGED <<klist, lastIP, nat, as, nas, inC, outT, conn>> /\ UNCHANGED HU

\* :184-188, :358-369 ListenPacket, AddUDPNatEntry, set under Lock, go timedCopy
H_Open ==
  /\ h.pc = "open" /\ nas < MaxAssoc
  /\ LET a == nas + 1
         d == h.d
         \* associations of this client whose removal has not been reported yet (must be none)
         pending == Cardinality({b \in 1..nas : as[b].c = d.c /\ ~(\E m \in Range(mlogG[b]) : m.ev = "NatRemove")}) IN
       /\ nas' = a
       /\ as' = [as EXCEPT ![a] = [FreeAssoc EXCEPT !.st = "used", !.c = d.c, !.key = d.k, !.open = TRUE, !.pc = "read"]]
       /\ nat' = [nat EXCEPT ![d.c] = a]
       /\ mlogH' = Append(mlogH, MEv("NatAdd", a, d.c, d.k, "", d.id, pending, d.id))
       /\ h' = [h EXCEPT !.a = a, !.pc = "latch"]
  /\ UNCHANGED <<klist, lastIP, inC, outT, conn>> /\ UNCHANGED HU

\* natconn.onWrite (:264-285) is two steps on shared state: (D) the fast-close latch is consumed unless this is the first
\* write and it is DNS (:267-272, sync.Once), (E) the deadline is extended - it only ever moves later (:274-284).  The code
\* does D then E.  Between the two the association's goroutine may read a datagram (onRead).
Disarm(asv, a, d, first) == [asv EXCEPT ![a].armed = IF IsDns(d.dst) /\ first THEN @ ELSE FALSE]
NewDl(d) == now + (IF IsDns(d.dst) THEN DNST ELSE T)
Extend(asv, a, d) == LET nd == NewDl(d) IN
                       IF nd > asv[a].rd THEN [asv EXCEPT ![a].rd = nd, ![a].dl = IF asv[a].open THEN nd ELSE @] ELSE asv
ExtendOps(a, d) == IF NewDl(d) > as[a].rd THEN <<COp("dl", NewDl(d), "write", d.dst)>> ELSE <<>>

H_OnWrite1 ==
  /\ h.pc = "latch"
  /\ LET a == h.a
         first == as[a].rd = -1 IN          \* isFirstWrite is read at the start of onWrite
       /\ h' = [h EXCEPT !.pc = "send", !.fw = first]
       /\ IF DisarmFirst
            THEN /\ as' = Disarm(as, a, h.d, first)
                 /\ UNCHANGED conn
            ELSE /\ as' = Extend(as, a, h.d)
                 /\ conn' = [conn EXCEPT ![a] = @ \o ExtendOps(a, h.d)]
  /\ UNCHANGED <<klist, lastIP, nat, nas, inC, outT, mlogH>> /\ UNCHANGED HU

\* second step of onWrite; :298 WriteTo on the outbound socket (it may FAIL: destination in Unsendable, or the socket was
\* closed by a teardown in the meantime - then nothing else changes); :213-220 AddPacketFromClient
H_Send ==
  /\ h.pc = "send"
  /\ LET a == h.a
         d == h.d
         up == as[a].open
         ok == up /\ d.dst \notin Unsendable
         as2 == IF DisarmFirst THEN Extend(as, a, d) ELSE Disarm(as, a, d, h.fw) IN
       /\ as' = as2
       /\ conn' = [conn EXCEPT ![a] = @ \o (IF DisarmFirst THEN ExtendOps(a, d) ELSE <<>>)
                                        \o (IF ok THEN <<COp("wr", -1, "", d.dst)>> ELSE IF up THEN <<COp("we", -1, "", d.dst)>> ELSE <<>>)]
       /\ outT' = IF ok THEN Append(outT, [did |-> d.id, a |-> a, sock |-> a, dst |-> d.dst, sz |-> d.sz, p |-> d.id, ts |-> now, t |-> now])
                  ELSE outT
       /\ mlogH' = Append(mlogH, IF ok THEN PktCEv(d, a, "OK", d.sz) ELSE PktCEv(d, a, "ERR_WRITE", 0))
       /\ h' = HIdleRec
  /\ UNCHANGED <<klist, lastIP, nat, nas, inC>> /\ UNCHANGED HU

\* :140 ErrClosed -> break -> deferred nm.Close (:372-384): every entry's deadline := now, under Lock
H_NatClose ==
  /\ h.pc = "read" /\ closing /\ inC = <<>>
  /\ LET live == {a \in 1..MaxAssoc : as[a].st = "used" /\ nat[as[a].c] = a} IN
       /\ as' = [a \in 1..MaxAssoc |-> IF a \in live /\ as[a].open THEN [as[a] EXCEPT !.dl = now] ELSE as[a]]
       /\ conn' = [a \in 1..MaxAssoc |-> IF a \in live THEN Append(conn[a], COp("dl", now, "close", 0)) ELSE conn[a]]
  /\ h' = [h EXCEPT !.pc = "returned"]
  /\ UNCHANGED <<klist, lastIP, nat, nas, inC, outT, mlogH>> /\ UNCHANGED HU

HandleStep == H_RecvLookup \/ H_Trial \/ H_Decrypt \/ H_Open \/ H_OnWrite1 \/ H_Send \/ H_NatClose

(* -------------- association goroutine (udp.go:362-368, 391-461) -------------- *)
GU == <<klist, lastIP, nas, h, inC, now, closing, sentC, sentS, outT, mlogH, tr>>   \* never changed by these goroutines

\* :413 ReadFrom returns a datagram (a passed deadline wins over queued data) + :287-294 onRead
G_Read(a) ==
  /\ as[a].pc = "read" /\ ~Expired(a) /\ inT[a] # <<>>
  /\ LET r == Head(inT[a])
         fast == as[a].armed /\ IsDns(r.src) IN
       /\ as' = [as EXCEPT ![a].pc = "pack", ![a].cur = r, ![a].armed = FALSE, ![a].dl = IF fast THEN now ELSE @]
       /\ conn' = [conn EXCEPT ![a] = @ \o <<COp("rd", -1, "", r.src)>> \o (IF fast THEN <<COp("dl", now, "fast", r.src)>> ELSE <<>>)]
       /\ inT' = [inT EXCEPT ![a] = Tail(@)]
  /\ UNCHANGED <<nat, crashed, outC, mlogG>> /\ UNCHANGED GU

\* :424-448 header from the TRUE sender address, Pack in place under the association's key with a fresh salt,
\* WriteTo the client through the listener socket; :459 AddPacketFromTarget
G_Relay(a) ==
  /\ as[a].pc = "pack"
  /\ LET r == as[a].cur
         k == as[a].key
         n == ReadLen(r.sz, k)
         w == WireToClient(n, k, r.src)
         st == IF ~PackFits(n, k) THEN "ERR_PACK" ELSE IF closing \/ w > MaxWire THEN "ERR_WRITE" ELSE "OK" IN
       IF Fam[r.src] = "zoned" /\ ZonedPanics
         THEN /\ crashed' = TRUE      \* slice bounds out of range; no recover in this goroutine: the process exits
              /\ as' = [as EXCEPT ![a].pc = "dead"]
              /\ UNCHANGED <<outC, mlogG>>
         ELSE /\ crashed' = crashed
              /\ as' = [as EXCEPT ![a].pc = "read", ![a].cur = NoD, ![a].ns = IF st = "ERR_PACK" THEN @ ELSE @ + 1]
              /\ outC' = IF st = "OK"
                           THEN [outC EXCEPT ![a] = Append(@, [sid |-> r.id, a |-> a, c |-> as[a].c, key |-> k, salt |-> <<a, as[a].ns + 1>>,
                                                             hdr |-> r.src, sz |-> n, p |-> r.id, wire |-> w, t |-> now])]
                           ELSE outC
              /\ mlogG' = [mlogG EXCEPT ![a] = Append(@, MEv("PktT", a, as[a].c, k, st, n, IF st = "OK" THEN w ELSE 0, r.id))]
  /\ UNCHANGED <<nat, inT, conn>> /\ UNCHANGED GU

\* :414-419 ReadFrom times out -> timedCopy returns; :364 RemoveNatEntry
G_Expire(a) ==
  /\ as[a].pc = "read" /\ Expired(a)
  /\ as' = [as EXCEPT ![a].pc = "del"]
  /\ mlogG' = [mlogG EXCEPT ![a] = Append(@, MEv("NatRemove", a, as[a].c, as[a].key, "", 0, 0, 0))]
  /\ UNCHANGED <<nat, inT, crashed, outC, conn>> /\ UNCHANGED GU

\* :365, :346-356 del(clientAddr.String()) under Lock: removes WHATEVER entry is stored under the key
G_Del(a) ==
  /\ as[a].pc = "del"
  /\ LET e == nat[as[a].c] IN
       /\ nat' = [nat EXCEPT ![as[a].c] = 0]
       /\ as' = [as EXCEPT ![a].pc = IF e = 0 THEN "done" ELSE "close", ![a].victim = e]
  /\ UNCHANGED <<inT, crashed, outC, mlogG, conn>> /\ UNCHANGED GU

\* :366 pc.Close() on the entry that del returned
G_Close(a) ==
  /\ as[a].pc = "close"
  /\ LET v == as[a].victim IN
       /\ as' = [as EXCEPT ![v].open = FALSE, ![a].pc = "done"]
       /\ conn' = [conn EXCEPT ![v] = Append(@, COp("cl", -1, "", 0))]
       /\ inT' = [inT EXCEPT ![v] = <<>>]
  /\ UNCHANGED <<nat, crashed, outC, mlogG>> /\ UNCHANGED GU

AssocStep(a) == G_Read(a) \/ G_Relay(a) \/ G_Expire(a) \/ G_Del(a) \/ G_Close(a)

(* ------------------------------- next-state ------------------------------- *)
Env == \/ \E x \in DgAlpha : ClientSend(x.c, x.k, x.hdr, x.dst, x.cls)
       \/ \E x \in RpAlpha, a \in 1..MaxAssoc : SenderSend(x.s, a, x.cls)
       \/ \E x \in MidAlpha, a \in 1..MaxAssoc : SenderSendMid(x.s, a, x.cls)
       \/ CloseListener
       \/ \E d \in Ticks : Tick(d)

Next == ~crashed /\ (Env \/ HandleStep \/ \E a \in 1..MaxAssoc : AssocStep(a))

Spec == Init /\ [][Next]_vars
FairSpec == Spec /\ WF_vars(HandleStep) /\ \A a \in 1..MaxAssoc : WF_vars(AssocStep(a))
\* liveness needs the listener to be closed eventually and the clock to advance (no state constraint)
LiveSpec == FairSpec /\ WF_vars(CloseListener)

(* ============================== property layer ==============================
   Everything in this section is stated over the observation variables (what clients, targets, the metrics sink
   and - under virtual time - a fake outbound conn can see), the environment's own history and the clock.
   UdpNatTrace evaluates the same predicates on observations recorded from the real code. *)
AIds == 1..MaxAssoc
Adds == {m \in Range(mlogH) : m.ev = "NatAdd"}
Added(a) == \E m \in Adds : m.a = a
NoAdd == [ev |-> "NatAdd", a |-> 0, c |-> 0, key |-> -1, st |-> "", x |-> 0, y |-> 0, did |-> 0, t |-> 0]
AddOf(a) == IF Added(a) THEN CHOOSE m \in Adds : m.a = a ELSE NoAdd
RemsOf(a) == SelectSeq(mlogG[a], LAMBDA m : m.ev = "NatRemove")
\* (total: an observation that refers to a datagram nobody sent is judged against a dummy that satisfies nothing)
NoDg == [id |-> 0, c |-> 0, k |-> 0, hdr |-> FALSE, dst |-> 0, sz |-> -1, wire |-> -1, t |-> 0, la |-> 0]
NoRp == [id |-> 0, src |-> 0, a |-> 0, sz |-> -1, nw |-> 0, t |-> 0, rd |-> -1, fits |-> FALSE]
Dg(id) == IF id \in 1..Len(sentC) THEN sentC[id] ELSE NoDg
Rp(id) == IF id \in 1..Len(sentS) THEN sentS[id] ELSE NoRp
Valid(d) == d.k \in Keys /\ d.hdr /\ d.dst \in Allowed
AllOutC == UNION {Range(outC[a]) : a \in AIds}

\* ---- C03 ----
\* forwarded => authenticated under the key that opened the association it left through, from that
\* association's client, destination as named by the client, payload identical
FwdAuthentic == \A e \in Range(outT) :
                  /\ e.did \in 1..Len(sentC)
                  /\ LET d == Dg(e.did) IN
                       /\ Valid(d) /\ e.dst = d.dst /\ e.p = d.id /\ e.sz = d.sz
                       /\ \E m \in Adds : m.a = e.a /\ m.key = d.k /\ m.c = d.c
\* the routing clause of FwdAuthentic on its own: whatever a target receives was addressed - in the address header of THAT
\* datagram - to this very target (not to the target of an earlier datagram of the association, not to another port of the
\* same host, not to another name); together with FwdOnce: no other target receives it
FwdToNamed == \A e \in Range(outT) : e.did \in 1..Len(sentC) => e.dst = Dg(e.did).dst
\* at most one copy of each client datagram is forwarded
FwdOnce == \A i, j \in 1..Len(outT) : outT[i].did = outT[j].did => i = j
\* replies: key of the association, header = the true sender, payload identical, delivered once
ReplyAuthentic == \A a \in AIds : \A r \in Range(outC[a]) :
                    /\ r.sid \in 1..Len(sentS)
                    /\ LET s == Rp(r.sid) IN
                         /\ r.hdr = s.src /\ r.p = s.id /\ s.a = a
                         /\ \E m \in Adds : m.a = a /\ m.key = r.key
ReplyOnce == \A r1, r2 \in AllOutC : r1.sid = r2.sid => r1 = r2
SaltsFresh == \A r1, r2 \in AllOutC : r1.salt = r2.salt => r1 = r2
\* an association is created only by a datagram that authenticates (under the reported key) and names an
\* allowed destination; datagrams that authenticate under no key create nothing and send nothing
CreateOnlyValid == \A m \in Adds : m.x \in 1..Len(sentC) /\ Valid(Dg(m.x)) /\ Dg(m.x).k = m.key /\ Dg(m.x).c = m.c
CreateOnce == \A m1, m2 \in Adds : (m1.a = m2.a \/ m1.x = m2.x) => m1 = m2

\* completeness (step-synchronous executions, evaluated at quiescence): a datagram that authenticates under a
\* configured key - for a known client address: the key of its association - and names an allowed destination IS
\* forwarded; a deliverable datagram that reaches a live association's socket IS relayed
AtRest == Sync /\ Quiet
Gone(a) == a # 0 /\ RemsOf(a) # <<>>
GoneBy(a, t) == a # 0 /\ \E m \in Range(RemsOf(a)) : m.t < t + Slack
\* (a datagram sent while its association is being torn down carries no obligation either way)
MustForward(d) == Valid(d) /\ d.dst \notin Unsendable /\ (d.la = 0 \/ (~GoneBy(d.la, d.t) /\ Added(d.la) /\ AddOf(d.la).key = d.k))
FwdComplete == AtRest => \A d \in Range(sentC) : MustForward(d) => \E e \in Range(outT) : e.did = d.id
ReplyComplete == AtRest => \A r \in Range(sentS) :
                   (r.fits /\ ~closing /\ ~(\E m \in Range(RemsOf(r.a)) : m.t < r.t + Slack)) => \E x \in Range(outC[r.a]) : x.sid = r.id

\* ---- C04 ----
\* while its association is alive every datagram of a client leaves through that association
SrcStable == Sync => \A e \in Range(outT) : LET d == Dg(e.did) IN (d.la # 0 /\ ~Gone(d.la)) => e.a = d.la
\* one source socket per association, never shared; it carries only its client's datagrams
SrcPrivate == \A e1, e2 \in Range(outT) : /\ (e1.sock = e2.sock) <=> (e1.a = e2.a)
                                          /\ (e1.sock = e2.sock) => (Dg(e1.did).c = Dg(e2.did).c)
\* whatever arrives on an association's socket is delivered to its owner and to nobody else
OwnerOnly == \A a \in AIds : \A r \in Range(outC[a]) : \E m \in Adds : m.a = a /\ m.c = r.c
\* at most one live association per client: when one is added, every earlier one of that client has been removed
OnePerClient == \A m \in Adds : m.y = 0

\* ---- C14 ---- (conn is observable on fake conns under virtual time; on real sockets it is empty and the
\* clock is the harness's measured time; Slack = 0 in the model)
WritesOf(a) == SelectSeq(outT, LAMBDA e : e.a = a)
TimeoutOf(e) == IF IsDns(e.dst) THEN DNST ELSE T
\* the promise made to the client: every datagram forwarded while the association was still within its promise
\* extends it to (time of the datagram + timeout); a datagram forwarded through an association whose time had
\* already run out (it races with the teardown) promises nothing
\* a send that FAILS (seen as an ERR_WRITE report for the datagram) has extended the association's deadline all the same -
\* onWrite runs before the socket's WriteTo -, but promises nothing
FailedOf(a) == {m \in Range(mlogH) : m.ev = "PktC" /\ m.a = a /\ m.st = "ERR_WRITE"}
\* Promise(a) is computed along the Handle loop's own reports for the association (mlogH is its call order; instants alone
\* do not order two datagrams handled at the same instant).  Two values are carried: p = what has been promised to the
\* client, d = where the deadline stands (failed sends move d but promise nothing).  A datagram - forwarded or failed -
\* that is handled when d has already run out races with the teardown and changes neither.
HReports(a) == SelectSeq(mlogH, LAMBDA m : m.ev = "PktC" /\ m.a = a /\ m.st \in {"OK", "ERR_WRITE"})
SentAt(m) == LET W == {e \in Range(outT) : e.did = m.did} IN
               IF m.st = "OK" /\ W # {} THEN (CHOOSE e \in W : TRUE).ts ELSE m.t
RECURSIVE Prom(_, _, _, _)
Prom(rs, i, p, d) == IF i > Len(rs) THEN p
                     ELSE LET m == rs[i]
                              at == SentAt(m)
                              live == d = -1 \/ at + Slack < d
                              nd == at + TimeoutOf(Dg(m.did)) IN
                       Prom(rs, i + 1, IF live /\ m.st = "OK" THEN Max(p, nd) ELSE p, IF live THEN Max(d, nd) ELSE d)
Promise(a) == Prom(HReports(a), 1, -1, -1)
\* latest instant the association's deadline can be at (ts = when the client sent, t = when the target received)
\* (a send that FAILS has extended the deadline all the same - onWrite runs before the socket's WriteTo -; it is seen as an
\* ERR_WRITE report for the datagram)
PromiseHi(a) == LET ws == WritesOf(a)
                    S == {ws[i].t + TimeoutOf(ws[i]) : i \in 1..Len(ws)} \cup {m.t + TimeoutOf(Dg(m.did)) : m \in FailedOf(a)} IN
                  IF S = {} THEN -1 ELSE CHOOSE x \in S : \A y \in S : y <= x
\* the fast close may have fired: the first datagram was a DNS query and a port-53 sender has answered
\* (the latch is armed from creation, udp.go:261, so a port-53 datagram that reaches the socket before the first
\* WriteTo - a window of microseconds in which nobody knows the port - also fires it: r.nw = 0)
MayFastClose(a) == \E r \in Range(sentS) : /\ r.a = a /\ IsDns(r.src)
                                            /\ (r.nw = 0 \/ (Len(WritesOf(a)) >= 1 /\ IsDns(WritesOf(a)[1].dst)))
Excused(a) == MayFastClose(a) \/ closing
DlsOf(a) == SelectSeq(conn[a], LAMBDA x : x.op = "dl")
ClsOf(a) == SelectSeq(conn[a], LAMBDA x : x.op = "cl")
\* the deadline never moves earlier (except by the fast close and by shutdown, which set it to "now")
DeadlineMonotone == \A a \in AIds : LET ds == DlsOf(a) IN
                      \A i, j \in 1..Len(ds) : (i < j /\ ds[j].why = "write" /\ ds[i].why = "write") => ds[j].dl >= ds[i].dl
\* every forwarded datagram is preceded by a deadline at least as late as promised
WriteExtends == \A a \in AIds : LET co == conn[a] IN
                  \A i \in 1..Len(co) : co[i].op = "wr" =>
                    \E j \in 1..(i - 1) : co[j].op = "dl" /\ co[j].why = "write"
                                            /\ co[j].dl >= co[i].t + (IF IsDns(co[i].x) THEN DNST ELSE T)
\* removal is never reported, and the socket never closed, before the promise has run out
NoEarlyRemoval == \A a \in AIds : \A m \in Range(RemsOf(a)) : Excused(a) \/ m.t >= Promise(a)
NoEarlyClose == \A a \in AIds : \A x \in Range(ClsOf(a)) : Excused(a) \/ x.t >= Promise(a)
RemoveOnce == \A a \in AIds : Len(RemsOf(a)) <= 1
\* once the deadline has passed without client traffic the association is torn down within bounded time
\* (evaluated when the proxy is quiescent; Bound = 0 in the model and under virtual time)
ReclaimedInTime == Quiet => \A m \in Adds : (PromiseHi(m.a) # -1 /\ now > PromiseHi(m.a) + Bound) => Len(RemsOf(m.a)) = 1
CloseOnce == \A a \in AIds : Len(ClsOf(a)) <= 1
\* shutting the listener down expires every association: once Handle has returned and things have settled, every
\* association that was added has been removed
ShutdownReclaimed == (h.pc = "returned" /\ Quiet) => \A m \in Adds : Len(RemsOf(m.a)) = 1
\* fast close: only on a reply from port 53, only when exactly one datagram (a DNS query) had been written
\* and nothing had been read before; and in that situation it does fire (deadline := now)
\* write attempts: "wr" succeeded, "we" failed - natconn.onWrite ran for both
IsW(o) == o.op \in {"wr", "we"}
NWr(co, i) == Cardinality({j \in 1..(i - 1) : IsW(co[j])})
NRd(co, i) == Cardinality({j \in 1..(i - 1) : co[j].op = "rd"})
FastCloseRule == \A a \in AIds : LET co == conn[a] IN
                   \A i \in 1..Len(co) :
                     /\ (co[i].op = "dl" /\ co[i].why = "fast") =>
                          /\ co[i].dl = co[i].t /\ i > 1 /\ co[i - 1].op = "rd" /\ IsDns(co[i - 1].x)
                          /\ NRd(co, i - 1) = 0
                          /\ NWr(co, i) <= 1 /\ \A j \in 1..(i - 1) : IsW(co[j]) => IsDns(co[j].x)
                          \* ... and the deadline of a second datagram had not been set: the deadline never moves earlier
                          /\ Cardinality({j \in 1..(i - 1) : co[j].op = "dl" /\ co[j].why = "write"}) <= 1
                     /\ (co[i].op = "rd" /\ IsDns(co[i].x) /\ NRd(co, i) = 0 /\ NWr(co, i) = 1
                          /\ ~(h.pc = "send" /\ h.a = a)      \* no datagram in flight to this association
                          /\ (\E j \in 1..(i - 1) : IsW(co[j]) /\ IsDns(co[j].x))
                          /\ (\A j \in (i + 1)..Len(co) : ~IsW(co[j]))) =>     \* no second datagram racing with it
                          i < Len(co) /\ co[i + 1].op = "dl" /\ co[i + 1].why = "fast"

\* ---- C16 ----
PktCOf(a) == SelectSeq(mlogH, LAMBDA m : m.ev = "PktC" /\ m.a = a)
PktTOf(a) == SelectSeq(mlogG[a], LAMBDA m : m.ev = "PktT")
\* NatAdd (with the authenticating key) before anything else of the association, once; removal at most once and
\* nothing from the association's own goroutine after it; metrics only for associations that were added
MetricsLanguage ==
  /\ \A i \in 1..Len(mlogH) : mlogH[i].ev = "PktC" => \E j \in 1..(i - 1) : mlogH[j].ev = "NatAdd" /\ mlogH[j].a = mlogH[i].a
  /\ \A a \in AIds : /\ mlogG[a] # <<>> => Added(a)
                     /\ \A i \in 1..Len(mlogG[a]) : mlogG[a][i].ev = "NatRemove" => i = Len(mlogG[a])
\* each forwarded datagram is reported OK with the sizes seen on the wire, in order; a non-OK report moved nothing
PktCSound == \A a \in AIds :
               LET ok == SelectSeq(PktCOf(a), LAMBDA m : m.st = "OK")
                   fw == WritesOf(a) IN
                 /\ Len(ok) = Len(fw)
                 /\ \A i \in 1..Len(ok) : ok[i].y = fw[i].sz /\ ok[i].x = WireFromClient(Dg(fw[i].did)) /\ ok[i].key = AddOf(a).key
                 /\ \A m \in Range(PktCOf(a)) : m.st # "OK" => m.y = 0
PktTSound == \A a \in AIds :
               LET ok == SelectSeq(PktTOf(a), LAMBDA m : m.st = "OK")
                   dl == outC[a] IN
                 /\ Len(ok) = Len(dl)
                 /\ \A i \in 1..Len(ok) : ok[i].x = dl[i].sz /\ ok[i].y = dl[i].wire /\ ok[i].key = AddOf(a).key
                 /\ \A m \in Range(PktTOf(a)) : m.st # "OK" => m.y = 0
\* every client datagram that creates or arrives on an association is reported exactly once, on that association;
\* datagrams that neither create nor arrive on one are not reported
NPktC(d) == Cardinality({i \in 1..Len(mlogH) : mlogH[i].ev = "PktC" /\ mlogH[i].did = d.id})
Creates(d) == \E m \in Adds : m.x = d.id
PktCPerDatagram == \A d \in Range(sentC) :
                     /\ NPktC(d) <= 1
                     /\ \A m \in Range(mlogH) : (m.ev = "PktC" /\ m.did = d.id) =>
                           (m.c = d.c /\ (d.la = 0 \/ m.a = d.la \/ Gone(d.la)) /\ (m.st = "OK" => \E e \in Range(outT) : e.did = d.id /\ e.a = m.a))
                     /\ AtRest => /\ (Creates(d) \/ (d.la # 0 /\ ~Gone(d.la))) => NPktC(d) = 1
                                  /\ (~Creates(d) /\ d.la = 0) => NPktC(d) = 0
\* whatever becomes of it (relayed, does not fit the pack buffer, cannot be sent to the client), the report of a datagram
\* read from an association's socket carries the size that was read
PktTSize == \A r \in Range(sentS) : r.a \in AIds =>
              \A m \in Range(mlogG[r.a]) : (m.ev = "PktT" /\ m.did = r.id) => m.x = r.rd
\* every datagram read from an association's socket is reported exactly once
NPktT(r) == Cardinality({i \in 1..Len(mlogG[r.a]) : mlogG[r.a][i].ev = "PktT" /\ mlogG[r.a][i].did = r.id})
PktTPerReply == \A r \in Range(sentS) :
                  /\ NPktT(r) <= 1
                  /\ \A b \in AIds : b # r.a => \A m \in Range(mlogG[b]) : ~(m.ev = "PktT" /\ m.did = r.id)
                  /\ (AtRest /\ ~(\E m \in Range(RemsOf(r.a)) : m.t < r.t + Slack)) => NPktT(r) = 1

\* ---- C18 ----
NoCrash == ~crashed
Quiescent == /\ h.pc = "returned"
             /\ \A a \in AIds : as[a].st = "used" => as[a].pc = "done"
\* when everything has ended nothing is left: no entry, no open socket, one removal and one close per association
AllReclaimed == Quiescent =>
                  /\ \A c \in Clients : nat[c] = 0
                  /\ \A a \in AIds : as[a].st = "used" => ~as[a].open
                  /\ \A m \in Adds : Len(RemsOf(m.a)) = 1 /\ Len(ClsOf(m.a)) = 1
\* a datagram that fails leaves the table, every association and everything sent so far untouched
FailureIsolated == [][(h.pc \in {"trial", "decrypt"} /\ h'.pc = "read") => UNCHANGED <<nat, as, outT, outC>>]_vars
\* every step of the Handle loop has an outcome: it is never stuck with a datagram in hand
HandleTotal == (h.pc \notin {"read", "returned"}) => ENABLED HandleStep

\* mechanism sanity (documentation; failures on a trace would be drift)
TypeOK == /\ h.pc \in {"read", "trial", "decrypt", "open", "latch", "send", "returned"}
          /\ \A a \in AIds : as[a].pc \in {"none", "read", "pack", "del", "close", "done", "dead"}
          /\ \A c \in Clients : nat[c] \in 0..nas
MechNat == \A c \in Clients : nat[c] # 0 => as[nat[c]].c = c /\ as[nat[c]].st = "used"
\* usable while promised: entry present, socket open, goroutine still copying
Usable == \A m \in Adds : (~Excused(m.a) /\ now < Promise(m.a)) =>
            /\ nat[m.c] = m.a /\ as[m.a].open /\ as[m.a].pc \in {"read", "pack"}

\* ---- liveness (LiveSpec only) ----
Overdue(a) == as[a].st = "used" /\ as[a].pc = "read" /\ Expired(a)
ExpireHappens == \A a \in AIds : Overdue(a) ~> (as[a].pc = "done" \/ crashed)
ShutdownReclaims == closing ~> ((\A c \in Clients : nat[c] = 0) /\ (\A a \in AIds : ~as[a].open))

View == <<mech, obs>>
===============================================================================
