-------------------------------- MODULE UdpNat --------------------------------
(***************************************************************************)
(* service/udp.go: the UDP side of the proxy.                              *)
(*                                                                         *)
(* Mechanism layer (one action per step / critical section of the code):   *)
(*   Handle loop goroutine  H_*   udp.go:132-222 (+ findAccessKeyUDP 63-80,*)
(*                                validatePacket 227-243, natconn.onWrite  *)
(*                                264-285, natmap.Get/set/Add 325-370,     *)
(*                                natmap.Close 372-384)                    *)
(*   one goroutine per association G_*  natmap.Add 362-368, timedCopy      *)
(*                                391-461, natconn.onRead 287-294,         *)
(*                                natmap.del 346-356                       *)
(*   environment: ClientSend, SenderSend, CloseListener, Tick              *)
(* Property layer: predicates over OBSERVATION variables only (what        *)
(* clients, targets and the metrics sink can see): sentC, sentS, outT,     *)
(* outC, mlog, conn + the clock.  UdpNatTrace evaluates the very     *)
(* same predicates on observations recorded from the real code.            *)
(*                                                                         *)
(* Tokens: clients, keys (0 = authenticates under no configured key),      *)
(* targets/senders (address tokens), payload tokens, salt tokens.          *)
(***************************************************************************)
EXTENDS Integers, Sequences, FiniteSets, TLC

CONSTANTS
  Clients,     \* client address tokens (IP and port)
  IPOf,        \* [Clients -> IP token]: same IP different ports / different IPs
  Keys,        \* configured key ids (positive integers)
  InitList,    \* initial order of the key list (sequence over Keys)
  SaltSz,      \* [Keys -> salt size in bytes]   (16, 24, 32)
  Senders,     \* address tokens of everything that can send to an association's socket
  Targets,     \* subset of Senders a client may name as destination
  DnsPort,     \* subset of Senders whose port is 53
  Allowed,     \* subset of Targets accepted by the targetIPValidator
  Fam,         \* [Senders -> {"v4","v6","zoned"}]
  CClasses,    \* client payload size classes, subset of {"0","1","1000","max"}
  RClasses,    \* reply size classes, subset of {"0","1","1000","fit","fit1","big"}
  T, DNST,     \* configured NAT timeout, DNS timeout (17 s) in clock units
  Ticks,       \* possible clock advances
  MaxNow, MaxDg, MaxRp, MaxAssoc,   \* bounds (inside Next)
  Slack,       \* 0 in the model; measurement slack of real-time traces (UdpNatTrace)
  ZonedPanics  \* TRUE: model of the tree in which a zoned reply source crashes timedCopy (udp.go:425-440)

VARIABLES
  klist, lastIP,        \* cipher_list.go: list order (front first), lastClientIP per key
  nat,                  \* natmap.keyConn: [Clients -> association id or 0]
  as,                   \* [1..MaxAssoc -> association record] (natconn + its goroutine)
  nas,                  \* associations created so far
  h,                    \* Handle-loop goroutine: [pc, d, a, st, ptb]
  inC,                  \* listener socket receive queue (client datagrams)
  inT,                  \* [1..MaxAssoc -> receive queue of the association's socket]
  now, closing, crashed,
  \* observations
  sentC, sentS,         \* what clients / senders sent (environment history)
  outT, outC,           \* datagrams that left the proxy towards targets / clients
  mlog,                 \* metrics calls in call order
  conn,                 \* calls on the outbound PacketConns in call order (observable on a fake conn):
                        \*   [a, op \in {"dl","wr","rd","cl"}, t, dl, why, x]  x = destination / source token
  nsalt,                \* salts issued so far
  tr                    \* behaviour history for generation (hidden by VIEW)

mech == <<klist, lastIP, nat, as, nas, h, inC, inT, now, closing, crashed>>
obs  == <<sentC, sentS, outT, outC, mlog, conn, nsalt>>
vars == <<mech, obs, tr>>

Tag == 16
MaxWire == 65507          \* largest UDP payload on IPv4
BufSz == 65536            \* serverUDPBufferSize
MaxAddrLen == 19          \* udp.go:388
HdrLen(s) == IF Fam[s] = "v4" THEN 7 ELSE 19
Max(a, b) == IF a > b THEN a ELSE b
IsDns(s) == s \in DnsPort
NoD == [id |-> 0]
COp(a, op, dl, why, x) == [a |-> a, op |-> op, t |-> now, dl |-> dl, why |-> why, x |-> x]

\* numeric sizes of the classes
CSz(cls, k, dst) == CASE cls = "0" -> 0 [] cls = "1" -> 1 [] cls = "1000" -> 1000
                      [] cls = "max" -> MaxWire - (IF k \in Keys THEN SaltSz[k] ELSE 32) - HdrLen(dst) - Tag
RSz(cls, k, s) == CASE cls = "0" -> 0 [] cls = "1" -> 1 [] cls = "1000" -> 1000
                    [] cls = "fit"  -> MaxWire - SaltSz[k] - HdrLen(s) - Tag
                    [] cls = "fit1" -> MaxWire - SaltSz[k] - HdrLen(s) - Tag + 1
                    [] cls = "big"  -> MaxWire
\* timedCopy: readBuf = pkt[saltSize+19:], the kernel truncates longer datagrams silently
ReadLen(sz, k) == IF sz > BufSz - SaltSz[k] - MaxAddrLen THEN BufSz - SaltSz[k] - MaxAddrLen ELSE sz
\* Pack needs saltStart+salt+hdr+body+tag <= BufSz, i.e. body <= BufSz - salt - 19 - tag
PackFits(n, k) == n + Tag <= BufSz - SaltSz[k] - MaxAddrLen
WireToClient(n, k, s) == SaltSz[k] + HdrLen(s) + n + Tag
WireFromClient(d) == (IF d.k \in Keys THEN SaltSz[d.k] ELSE 32) + HdrLen(d.dst) + d.sz + Tag

FreeAssoc == [st |-> "free", c |-> 0, key |-> 0, dl |-> -1, rd |-> -1, armed |-> TRUE, open |-> FALSE,
              pc |-> "none", cur |-> NoD, victim |-> 0, n |-> 0, status |-> "", wire |-> 0]

Init ==
  /\ klist = InitList /\ lastIP = [k \in Keys |-> 0]
  /\ nat = [c \in Clients |-> 0]
  /\ as = [a \in 1..MaxAssoc |-> FreeAssoc] /\ nas = 0
  /\ h = [pc |-> "read", d |-> NoD, a |-> 0, st |-> "", ptb |-> 0]
  /\ inC = <<>> /\ inT = [a \in 1..MaxAssoc |-> <<>>]
  /\ now = 0 /\ closing = FALSE /\ crashed = FALSE
  /\ sentC = <<>> /\ sentS = <<>> /\ outT = <<>> /\ outC = <<>> /\ mlog = <<>> /\ conn = <<>>
  /\ nsalt = 0
  /\ tr = <<>>

(* ------------------------------ environment ------------------------------ *)
\* a client socket sends one datagram to the listener.  k = 0: encrypted under an unknown key / truncated / garbage
ClientSend(c, k, hdr, dst, cls) ==
  /\ ~closing /\ Len(sentC) < MaxDg
  /\ LET d == [id |-> Len(sentC) + 1, c |-> c, k |-> k, hdr |-> hdr, dst |-> dst, sz |-> CSz(cls, k, dst), t |-> now] IN
       /\ sentC' = Append(sentC, d)
       /\ inC' = Append(inC, d)
       /\ tr' = Append(tr, [a |-> "CDgram", c |-> c, k |-> k, hdr |-> hdr, dst |-> dst, cls |-> cls])
  /\ UNCHANGED <<klist, lastIP, nat, as, nas, h, inT, now, closing, crashed, sentS, outT, outC, mlog, conn, nsalt>>

\* some socket s sends a datagram to the outbound socket of association a (the socket must still be bound)
SenderSend(s, a, cls) ==
  /\ Len(sentS) < MaxRp
  /\ as[a].st = "used" /\ as[a].open
  /\ LET r == [id |-> Len(sentS) + 1, src |-> s, a |-> a, sz |-> RSz(cls, as[a].key, s), t |-> now] IN
       /\ sentS' = Append(sentS, r)
       /\ inT' = [inT EXCEPT ![a] = Append(@, r)]
       /\ tr' = Append(tr, [a |-> "TReply", src |-> s, to |-> as[a].c, as |-> a, cls |-> cls])
  /\ UNCHANGED <<klist, lastIP, nat, as, nas, h, inC, now, closing, crashed, sentC, outT, outC, mlog, conn, nsalt>>

\* the listener is closed; the kernel drops what was queued
CloseListener ==
  /\ ~closing
  /\ closing' = TRUE /\ inC' = <<>>
  /\ tr' = Append(tr, [a |-> "Shutdown"])
  /\ UNCHANGED <<klist, lastIP, nat, as, nas, h, inT, now, crashed, obs>>

Tick(d) ==
  /\ now + d <= MaxNow
  /\ now' = now + d
  /\ tr' = Append(tr, [a |-> "Tick", d |-> d])
  /\ UNCHANGED <<klist, lastIP, nat, as, nas, h, inC, inT, closing, crashed, obs>>

(* ------------------------ Handle loop (udp.go:132-222) ------------------------ *)
HU == <<inT, now, closing, crashed, sentC, sentS, outC, nsalt, tr>>   \* never changed by the Handle loop

\* :139 ReadFrom returns a datagram
H_Recv ==
  /\ h.pc = "read" /\ inC # <<>>
  /\ h' = [pc |-> "lookup", d |-> Head(inC), a |-> 0, st |-> "OK", ptb |-> 0]
  /\ inC' = Tail(inC)
  /\ UNCHANGED <<klist, lastIP, nat, as, nas, outT, mlog, conn>> /\ UNCHANGED HU

\* :165 nm.Get under RLock
H_Lookup ==
  /\ h.pc = "lookup"
  /\ h' = [h EXCEPT !.a = nat[h.d.c], !.pc = IF nat[h.d.c] = 0 THEN "trial" ELSE "decrypt"]
  /\ UNCHANGED <<klist, lastIP, nat, as, nas, inC, outT, mlog, conn>> /\ UNCHANGED HU

\* cipher_list.go:83-103: keys last used by this IP first, then the others, both in list order
Snapshot(ip) == LET hit == SelectSeq(klist, LAMBDA k : ip # 0 /\ lastIP[k] = ip)
                    rest == SelectSeq(klist, LAMBDA k : ~(ip # 0 /\ lastIP[k] = ip))
                IN hit \o rest
\* udp.go:69 Unpack(dst = textBuf, src = cipherBuf): dst never aliases src, so a failed trial leaves the
\* ciphertext intact for the following keys.
Intact(snap, i) == TRUE
MoveToFront(k) == <<k>> \o SelectSeq(klist, LAMBDA x : x # k)

\* :171-177 findAccessKeyUDP: snapshot, trial decryption key by key, MarkUsedByClientIP; AddCipherSearch
H_Trial ==
  /\ h.pc = "trial"
  /\ LET ip == IPOf[h.d.c]
         snap == Snapshot(ip)
         found == \E i \in 1..Len(snap) : snap[i] = h.d.k /\ Intact(snap, i) IN
       /\ mlog' = Append(mlog, [ev |-> "CS", a |-> 0, c |-> h.d.c, key |-> 0, st |-> IF found THEN "true" ELSE "false", x |-> 0, y |-> 0, t |-> now])
       /\ IF found
            THEN /\ klist' = MoveToFront(h.d.k)
                 /\ lastIP' = [lastIP EXCEPT ![h.d.k] = ip]
                 /\ h' = [h EXCEPT !.pc = "validate"]
            ELSE /\ h' = [h EXCEPT !.pc = "report", !.st = "ERR_CIPHER"]
                 /\ UNCHANGED <<klist, lastIP>>
  /\ UNCHANGED <<nat, as, nas, inC, outT, conn>> /\ UNCHANGED HU

\* :190-197 known association: only the association's key is tried
H_Decrypt ==
  /\ h.pc = "decrypt"
  /\ LET ok == h.d.k = as[h.a].key IN
       /\ mlog' = Append(mlog, [ev |-> "CS", a |-> 0, c |-> h.d.c, key |-> 0, st |-> IF ok THEN "true" ELSE "false", x |-> 0, y |-> 0, t |-> now])
       /\ h' = IF ok THEN [h EXCEPT !.pc = "validate"] ELSE [h EXCEPT !.pc = "report", !.st = "ERR_CIPHER"]
  /\ UNCHANGED <<klist, lastIP, nat, as, nas, inC, outT, conn>> /\ UNCHANGED HU

\* :180 / :200 validatePacket: SplitAddr, ResolveUDPAddr, targetIPValidator - on BOTH paths
H_Validate ==
  /\ h.pc = "validate"
  /\ h' = IF ~h.d.hdr THEN [h EXCEPT !.pc = "report", !.st = "ERR_READ_ADDRESS"]
          ELSE IF h.d.dst \notin Allowed THEN [h EXCEPT !.pc = "report", !.st = "ERR_ADDRESS"]
          ELSE [h EXCEPT !.pc = IF h.a = 0 THEN "open" ELSE "latch"]
  /\ UNCHANGED <<klist, lastIP, nat, as, nas, inC, outT, mlog, conn>> /\ UNCHANGED HU

\* :184-188, :358-369 ListenPacket, AddUDPNatEntry, set under Lock, go timedCopy
H_Open ==
  /\ h.pc = "open" /\ nas < MaxAssoc
  /\ LET a == nas + 1 IN
       /\ nas' = a
       /\ as' = [as EXCEPT ![a] = [FreeAssoc EXCEPT !.st = "used", !.c = h.d.c, !.key = h.d.k, !.open = TRUE, !.pc = "read"]]
       /\ nat' = [nat EXCEPT ![h.d.c] = a]
       /\ mlog' = Append(mlog, [ev |-> "NatAdd", a |-> a, c |-> h.d.c, key |-> h.d.k, st |-> "", x |-> h.d.id, y |-> 0, t |-> now])
       /\ h' = [h EXCEPT !.a = a, !.pc = "latch"]
  /\ UNCHANGED <<klist, lastIP, inC, outT, conn>> /\ UNCHANGED HU

\* :264-272 onWrite, first half: the fast-close latch is consumed unless this is the first write and it is DNS
H_Latch ==
  /\ h.pc = "latch"
  /\ LET a == h.a
         keep == IsDns(h.d.dst) /\ as[a].rd = -1 IN
       /\ as' = [as EXCEPT ![a].armed = IF keep THEN @ ELSE FALSE]
       /\ h' = [h EXCEPT !.pc = "send"]
  /\ UNCHANGED <<klist, lastIP, nat, nas, inC, outT, mlog, conn>> /\ UNCHANGED HU

\* :274-284 onWrite, second half (deadline only ever moves later) + :298 WriteTo on the outbound socket
H_Send ==
  /\ h.pc = "send"
  /\ LET a == h.a
         nd == now + (IF IsDns(h.d.dst) THEN DNST ELSE T)
         later == nd > as[a].rd IN
       /\ as' = [as EXCEPT ![a].rd = IF later THEN nd ELSE @, ![a].dl = IF later /\ as[a].open THEN nd ELSE @]
       /\ conn' = conn \o (IF later THEN <<COp(a, "dl", nd, "write", h.d.dst)>> ELSE <<>>)
                       \o (IF as[a].open THEN <<COp(a, "wr", -1, "", h.d.dst)>> ELSE <<>>)
       /\ IF as[a].open
            THEN /\ outT' = Append(outT, [did |-> h.d.id, a |-> a, sock |-> a, dst |-> h.d.dst, sz |-> h.d.sz, p |-> h.d.id, t |-> now])
                 /\ h' = [h EXCEPT !.pc = "report", !.ptb = h.d.sz]
            ELSE /\ outT' = outT     \* the association died in the meantime: write on a closed socket
                 /\ h' = [h EXCEPT !.pc = "report", !.st = "ERR_WRITE"]
  /\ UNCHANGED <<klist, lastIP, nat, nas, inC, mlog>> /\ UNCHANGED HU

\* :213-220 AddPacketFromClient only when there is an association
H_Report ==
  /\ h.pc = "report"
  /\ mlog' = IF h.a # 0
               THEN Append(mlog, [ev |-> "PktC", a |-> h.a, c |-> h.d.c, key |-> as[h.a].key, st |-> h.st,
                                  x |-> WireFromClient(h.d), y |-> h.ptb, t |-> now])
               ELSE mlog
  /\ h' = [pc |-> "read", d |-> NoD, a |-> 0, st |-> "", ptb |-> 0]
  /\ UNCHANGED <<klist, lastIP, nat, as, nas, inC, outT, conn>> /\ UNCHANGED HU

\* :140 ErrClosed -> break -> deferred nm.Close (:372-384): every entry's deadline := now, under Lock
H_NatClose ==
  /\ h.pc = "read" /\ closing /\ inC = <<>>
  /\ LET live == {a \in 1..MaxAssoc : as[a].st = "used" /\ nat[as[a].c] = a} IN
       /\ as' = [a \in 1..MaxAssoc |-> IF a \in live /\ as[a].open THEN [as[a] EXCEPT !.dl = now] ELSE as[a]]
       /\ conn' = conn \o [i \in 1..Cardinality(live) |->
                    COp(CHOOSE x \in live : Cardinality({y \in live : y < x}) = i - 1, "dl", now, "close", 0)]
  /\ h' = [h EXCEPT !.pc = "returned"]
  /\ UNCHANGED <<klist, lastIP, nat, nas, inC, outT, mlog>> /\ UNCHANGED HU

HandleStep == H_Recv \/ H_Lookup \/ H_Trial \/ H_Decrypt \/ H_Validate \/ H_Open \/ H_Latch \/ H_Send \/ H_Report \/ H_NatClose

(* -------------- association goroutine (udp.go:362-368, 391-461) -------------- *)
GU == <<klist, lastIP, nas, h, inC, now, closing, sentC, sentS, outT, tr>>   \* never changed by these goroutines

Expired(a) == as[a].dl # -1 /\ now >= as[a].dl

\* :413 ReadFrom returns a datagram (a passed deadline wins over queued data) + :287-294 onRead
G_Read(a) ==
  /\ as[a].pc = "read" /\ ~Expired(a) /\ inT[a] # <<>>
  /\ LET r == Head(inT[a])
         fast == as[a].armed /\ IsDns(r.src) IN
       /\ as' = [as EXCEPT ![a].pc = "pack", ![a].cur = r, ![a].armed = FALSE, ![a].dl = IF fast THEN now ELSE @]
       /\ conn' = conn \o <<COp(a, "rd", -1, "", r.src)>> \o (IF fast THEN <<COp(a, "dl", now, "fast", r.src)>> ELSE <<>>)
       /\ inT' = [inT EXCEPT ![a] = Tail(@)]
  /\ UNCHANGED <<nat, crashed, outC, mlog, nsalt>> /\ UNCHANGED GU

\* :414-419 ReadFrom times out
G_Timeout(a) ==
  /\ as[a].pc = "read" /\ Expired(a)
  /\ as' = [as EXCEPT ![a].pc = "remove"]
  /\ UNCHANGED <<nat, inT, crashed, outC, mlog, conn, nsalt>> /\ UNCHANGED GU

\* :424-448 header from the TRUE sender address, Pack in place under the association's key with a fresh salt,
\* WriteTo the client through the listener socket
G_Pack(a) ==
  /\ as[a].pc = "pack"
  /\ LET r == as[a].cur
         k == as[a].key
         n == ReadLen(r.sz, k) IN
       IF Fam[r.src] = "zoned" /\ ZonedPanics
         THEN /\ crashed' = TRUE      \* slice bounds out of range, no recover in this goroutine: process exits
              /\ as' = [as EXCEPT ![a].pc = "dead"]
              /\ UNCHANGED <<outC, nsalt>>
         ELSE /\ crashed' = crashed
              /\ IF ~PackFits(n, k) THEN
                     /\ as' = [as EXCEPT ![a].pc = "reportT", ![a].n = n, ![a].status = "ERR_PACK", ![a].wire = 0]
                     /\ UNCHANGED <<outC, nsalt>>
                 ELSE IF closing \/ WireToClient(n, k, r.src) > MaxWire THEN
                     /\ as' = [as EXCEPT ![a].pc = "reportT", ![a].n = n, ![a].status = "ERR_WRITE", ![a].wire = 0]
                     /\ nsalt' = nsalt + 1      \* a salt was drawn, nothing left the proxy
                     /\ UNCHANGED outC
                 ELSE
                     /\ nsalt' = nsalt + 1
                     /\ outC' = Append(outC, [sid |-> r.id, a |-> a, c |-> as[a].c, key |-> k, salt |-> nsalt + 1,
                                              hdr |-> r.src, sz |-> n, p |-> r.id, wire |-> WireToClient(n, k, r.src), t |-> now])
                     /\ as' = [as EXCEPT ![a].pc = "reportT", ![a].n = n, ![a].status = "OK", ![a].wire = WireToClient(n, k, r.src)]
  /\ UNCHANGED <<nat, inT, mlog, conn>> /\ UNCHANGED GU

\* :459 AddPacketFromTarget
G_Report(a) ==
  /\ as[a].pc = "reportT"
  /\ mlog' = Append(mlog, [ev |-> "PktT", a |-> a, c |-> as[a].c, key |-> as[a].key, st |-> as[a].status,
                           x |-> as[a].n, y |-> as[a].wire, t |-> now])
  /\ as' = [as EXCEPT ![a].pc = "read", ![a].cur = NoD, ![a].n = 0, ![a].status = "", ![a].wire = 0]
  /\ UNCHANGED <<nat, inT, crashed, outC, conn, nsalt>> /\ UNCHANGED GU

\* :364 RemoveNatEntry
G_Remove(a) ==
  /\ as[a].pc = "remove"
  /\ mlog' = Append(mlog, [ev |-> "NatRemove", a |-> a, c |-> as[a].c, key |-> as[a].key, st |-> "", x |-> 0, y |-> 0, t |-> now])
  /\ as' = [as EXCEPT ![a].pc = "del"]
  /\ UNCHANGED <<nat, inT, crashed, outC, conn, nsalt>> /\ UNCHANGED GU

\* :365, :346-356 del(clientAddr.String()) under Lock: removes WHATEVER entry is stored under the key
G_Del(a) ==
  /\ as[a].pc = "del"
  /\ LET e == nat[as[a].c] IN
       /\ nat' = [nat EXCEPT ![as[a].c] = 0]
       /\ as' = [as EXCEPT ![a].pc = IF e = 0 THEN "done" ELSE "close", ![a].victim = e]
  /\ UNCHANGED <<inT, crashed, outC, mlog, conn, nsalt>> /\ UNCHANGED GU

\* :366 pc.Close() on the entry that del returned
G_Close(a) ==
  /\ as[a].pc = "close"
  /\ LET v == as[a].victim IN
       /\ as' = [as EXCEPT ![v].open = FALSE, ![a].pc = "done"]
       /\ conn' = Append(conn, COp(v, "cl", -1, "", 0))
       /\ inT' = [inT EXCEPT ![v] = <<>>]
  /\ UNCHANGED <<nat, crashed, outC, mlog, nsalt>> /\ UNCHANGED GU

AssocStep(a) == G_Read(a) \/ G_Timeout(a) \/ G_Pack(a) \/ G_Report(a) \/ G_Remove(a) \/ G_Del(a) \/ G_Close(a)

(* ------------------------------- next-state ------------------------------- *)
Env == \/ \E c \in Clients, k \in Keys \cup {0}, hdr \in BOOLEAN, dst \in Targets, cls \in CClasses : ClientSend(c, k, hdr, dst, cls)
       \/ \E s \in Senders, a \in 1..MaxAssoc, cls \in RClasses : SenderSend(s, a, cls)
       \/ CloseListener
       \/ \E d \in Ticks : Tick(d)

Next == ~crashed /\ (Env \/ HandleStep \/ \E a \in 1..MaxAssoc : AssocStep(a))

Spec == Init /\ [][Next]_vars
FairSpec == Spec /\ WF_vars(HandleStep) /\ \A a \in 1..MaxAssoc : WF_vars(AssocStep(a))
\* liveness needs the listener to be closed eventually and the clock to advance (no state constraint)
LiveSpec == FairSpec /\ WF_vars(CloseListener)

(* ============================== property layer ============================== *)
\* Everything below is stated over observation variables (and the clock) only.
Range(s) == {s[i] : i \in 1..Len(s)}
Adds == {m \in Range(mlog) : m.ev = "NatAdd"}
Rems == {m \in Range(mlog) : m.ev = "NatRemove"}
AddOf(a) == CHOOSE m \in Adds : m.a = a
Dg(id) == sentC[id]
Rp(id) == sentS[id]
Valid(d) == d.k \in Keys /\ d.hdr /\ d.dst \in Allowed

\* ---- C03 ----
\* forwarded => authenticated under the key that opened the association the datagram left through,
\* destination as named by the client, payload identical
FwdAuthentic == \A e \in Range(outT) :
                  /\ e.did \in 1..Len(sentC)
                  /\ LET d == Dg(e.did) IN
                       /\ Valid(d) /\ e.dst = d.dst /\ e.p = d.id /\ e.sz = d.sz
                       /\ \E m \in Adds : m.a = e.a /\ m.key = d.k /\ m.c = d.c
\* at most one copy of each client datagram is forwarded
FwdOnce == \A i, j \in 1..Len(outT) : outT[i].did = outT[j].did => i = j
\* replies: key of the association, fresh salt, header = the true sender, payload identical
ReplyAuthentic == \A r \in Range(outC) :
                    /\ r.sid \in 1..Len(sentS)
                    /\ LET s == Rp(r.sid) IN
                         /\ r.hdr = s.src /\ r.p = s.id
                         /\ \E m \in Adds : m.a = s.a /\ m.key = r.key
SaltsFresh == \A i, j \in 1..Len(outC) : outC[i].salt = outC[j].salt => i = j
\* an association is created only by a datagram that authenticates and names an allowed destination
CreateOnlyValid == \A m \in Adds : m.x \in 1..Len(sentC) /\ Valid(Dg(m.x)) /\ Dg(m.x).k = m.key /\ Dg(m.x).c = m.c

\* ---- C04 ----
\* a datagram of client c leaves through the socket of c's association; sockets are never shared
SrcPrivate == \A e1, e2 \in Range(outT) : (e1.sock = e2.sock) <=> (e1.a = e2.a)
SrcStable  == \A e \in Range(outT) : \E m \in Adds : m.a = e.a /\ m.c = Dg(e.did).c
\* whatever arrives on an association's socket is delivered to its owner and to nobody else
OwnerOnly == \A r \in Range(outC) : \E m \in Adds : m.a = Rp(r.sid).a /\ m.c = r.c
\* at most one live association per client: adds for one client are separated by a removal
OnePerClient == \A i, j \in 1..Len(mlog) :
                  (i < j /\ mlog[i].ev = "NatAdd" /\ mlog[j].ev = "NatAdd" /\ mlog[i].c = mlog[j].c)
                    => \E x \in 1..Len(mlog) : x < j /\ mlog[x].ev = "NatRemove" /\ mlog[x].a = mlog[i].a

\* ---- C14 ---- (conn is observable on fake conns under virtual time; on real sockets it is empty and the
\* clock is the harness's measured time; Slack = 0 in the model)
ConnOf(a) == SelectSeq(conn, LAMBDA x : x.a = a)
Dls == SelectSeq(conn, LAMBDA x : x.op = "dl")
Cls == SelectSeq(conn, LAMBDA x : x.op = "cl")
WritesOf(a) == SelectSeq(outT, LAMBDA e : e.a = a)
TimeoutOf(e) == IF IsDns(e.dst) THEN DNST ELSE T
\* the promise made to the client: every datagram forwarded while the association was still within its promise
\* extends it to (time of the datagram + timeout); a datagram forwarded through an association whose time had
\* already run out (it races with the teardown) promises nothing
RECURSIVE Prom(_, _, _)
Prom(ws, i, p) == IF i > Len(ws) THEN p
                  ELSE Prom(ws, i + 1, IF p = -1 \/ ws[i].t + Slack < p THEN Max(p, ws[i].t + TimeoutOf(ws[i])) ELSE p)
Promise(a) == Prom(WritesOf(a), 1, -1)
\* the fast close may have fired: the first datagram was a DNS query and a port-53 sender has answered
MayFastClose(a) == /\ Len(WritesOf(a)) >= 1 /\ IsDns(WritesOf(a)[1].dst)
                   /\ \E r \in Range(sentS) : r.a = a /\ IsDns(r.src)
Excused(a) == MayFastClose(a) \/ closing
\* the deadline never moves earlier (except by the fast close and by shutdown, which set it to "now")
DeadlineMonotone == \A i, j \in 1..Len(Dls) :
                      (i < j /\ Dls[i].a = Dls[j].a /\ Dls[j].why = "write" /\ Dls[i].why = "write") => Dls[j].dl >= Dls[i].dl
\* every forwarded datagram is preceded by a deadline at least as late as promised
WriteExtends == \A a \in 1..MaxAssoc : LET co == ConnOf(a) IN
                  \A i \in 1..Len(co) : co[i].op = "wr" =>
                    \E j \in 1..(i - 1) : co[j].op = "dl" /\ co[j].why = "write"
                                            /\ co[j].dl >= co[i].t + (IF IsDns(co[i].x) THEN DNST ELSE T)
\* removal is never reported, and the socket never closed, before the promise has run out
NoEarlyRemoval == \A m \in Rems : Excused(m.a) \/ m.t >= Promise(m.a)
NoEarlyClose == \A x \in Range(Cls) : Excused(x.a) \/ x.t >= Promise(x.a)
RemoveOnce == \A i, j \in 1..Len(mlog) : (mlog[i].ev = "NatRemove" /\ mlog[j].ev = "NatRemove" /\ mlog[i].a = mlog[j].a) => i = j
CloseOnce == \A i, j \in 1..Len(Cls) : Cls[i].a = Cls[j].a => i = j
\* fast close: only on a reply from port 53, only when exactly one datagram (a DNS query) had been written
\* and nothing had been read before; and then it does fire (deadline := now)
NWr(co, i) == Cardinality({j \in 1..(i - 1) : co[j].op = "wr"})
NRd(co, i) == Cardinality({j \in 1..(i - 1) : co[j].op = "rd"})
FastCloseRule == \A a \in 1..MaxAssoc : LET co == ConnOf(a) IN
                   \A i \in 1..Len(co) :
                     /\ (co[i].op = "dl" /\ co[i].why = "fast") =>
                          /\ co[i].dl = co[i].t /\ i > 1 /\ co[i - 1].op = "rd" /\ IsDns(co[i - 1].x)
                          /\ \E j \in 1..(i - 1) : co[j].op = "wr" /\ IsDns(co[j].x) /\ NWr(co, j) = 0
                     /\ (co[i].op = "rd" /\ IsDns(co[i].x) /\ NRd(co, i) = 0 /\ NWr(co, i) = 1
                          /\ ~(h.pc = "send" /\ h.a = a)      \* no datagram in flight to this association
                          /\ (\E j \in 1..(i - 1) : co[j].op = "wr" /\ IsDns(co[j].x))
                          /\ (\A j \in (i + 1)..Len(co) : co[j].op # "wr")) =>     \* no second datagram racing with it
                          i < Len(co) /\ co[i + 1].op = "dl" /\ co[i + 1].why = "fast"
\* after a fast close with no racing datagram the association is torn down at that very instant (virtual time)

\* ---- C16 ----
MOf(a, ev) == SelectSeq(mlog, LAMBDA m : m.a = a /\ m.ev = ev)
\* NatAdd first, once; nothing from the association's own goroutine after NatRemove
MetricsLanguage == \A i \in 1..Len(mlog) : mlog[i].a # 0 =>
                     /\ mlog[i].ev = "NatAdd" => \A j \in 1..Len(mlog) : (mlog[j].a = mlog[i].a /\ j # i) => (j > i /\ mlog[j].ev # "NatAdd")
                     /\ mlog[i].ev # "NatAdd" => \E j \in 1..(i - 1) : mlog[j].ev = "NatAdd" /\ mlog[j].a = mlog[i].a
                     /\ mlog[i].ev = "PktT" => \A j \in 1..(i - 1) : ~(mlog[j].ev = "NatRemove" /\ mlog[j].a = mlog[i].a)
\* each forwarded datagram is reported OK with the sizes seen on the wire; each non-OK report moved nothing
PktCSound == \A a \in 1..MaxAssoc :
               LET ok == SelectSeq(MOf(a, "PktC"), LAMBDA m : m.st = "OK")
                   fw == SelectSeq(outT, LAMBDA e : e.a = a) IN
                 /\ Len(ok) <= Len(fw) /\ Len(fw) <= Len(ok) + 1
                 /\ \A i \in 1..Len(ok) : ok[i].y = fw[i].sz /\ ok[i].x = WireFromClient(Dg(fw[i].did))
                 /\ \A m \in Range(MOf(a, "PktC")) : m.st # "OK" => m.y = 0
PktTSound == \A a \in 1..MaxAssoc :
               LET ok == SelectSeq(MOf(a, "PktT"), LAMBDA m : m.st = "OK")
                   dl == SelectSeq(outC, LAMBDA r : r.a = a) IN
                 /\ Len(ok) <= Len(dl) /\ Len(dl) <= Len(ok) + 1
                 /\ \A i \in 1..Len(ok) : ok[i].x = dl[i].sz /\ ok[i].y = dl[i].wire
                 /\ \A m \in Range(MOf(a, "PktT")) : m.st # "OK" => m.y = 0

\* ---- C18 ----
NoCrash == ~crashed
Quiescent == /\ h.pc = "returned"
             /\ \A a \in 1..MaxAssoc : as[a].st = "used" => as[a].pc = "done"
\* when everything has ended nothing is left: no entry, no open socket, one removal and one close per association
AllReclaimed == Quiescent =>
                  /\ \A c \in Clients : nat[c] = 0
                  /\ \A a \in 1..MaxAssoc : as[a].st = "used" => ~as[a].open
                  /\ \A m \in Adds : Cardinality({x \in Rems : x.a = m.a}) = 1 /\ \E x \in Range(Cls) : x.a = m.a
\* a datagram that fails (no association involved) leaves the table and every association untouched
FailureIsolated == [][(h.pc = "report" /\ h.a = 0 /\ h'.pc = "read") => UNCHANGED <<nat, as, outT, outC>>]_vars

\* mechanism sanity (documentation; failures on a trace would be drift)
TypeOK == /\ h.pc \in {"read", "lookup", "trial", "decrypt", "validate", "open", "latch", "send", "report", "returned"}
          /\ \A a \in 1..MaxAssoc : as[a].pc \in {"none", "read", "pack", "reportT", "remove", "del", "close", "done", "dead"}
          /\ \A c \in Clients : nat[c] \in 0..nas
MechNat == \A c \in Clients : nat[c] # 0 => as[nat[c]].c = c /\ as[nat[c]].st = "used"
\* usable while promised: entry present, socket open, goroutine still copying
Usable == \A m \in Adds : (~Excused(m.a) /\ now < Promise(m.a)) =>
            /\ nat[m.c] = m.a /\ as[m.a].open /\ as[m.a].pc \in {"read", "pack", "reportT"}

\* ---- liveness (LiveSpec only) ----
Overdue(a) == as[a].st = "used" /\ as[a].pc = "read" /\ Expired(a)
ExpireHappens == \A a \in 1..MaxAssoc : Overdue(a) ~> (as[a].pc = "done" \/ crashed)
ShutdownReclaims == closing ~> ((\A c \in Clients : nat[c] = 0) /\ (\A a \in 1..MaxAssoc : ~as[a].open))

View == <<mech, obs>>
===============================================================================
