SPECIFICATION GenSpec
CONSTANTS
  Conns = {1, 2}
  HsKinds = {"valid", "garbage"}
  TgtKinds = {"ok", "refuse"}
  MaxC = 1
  MaxT = 1
  MaxTok = 4
  AllowBad = TRUE
  AllowSplit = FALSE
  AllowRst = TRUE
  AllowTClose = FALSE
  AllowCRst = FALSE
  AllowPause = FALSE
  Planned = TRUE
  Timeout = 2
  MaxNow = 3
  DrainMode = "raw"
  Strict = TRUE
  WithServe = TRUE
  Hist = TRUE
  SlackEarly = 0
  SlackLate = 0
  SlackSched = 0
INVARIANTS DumpInv
CHECK_DEADLOCK FALSE
