SPECIFICATION Spec
CONSTANTS
  Threads = {1, 2, 3}
  Keys = {1, 2, 3, 4, 5}
  ForeignKeys = {4, 5}
  KindOf <- MCKindOf
  ScriptChoices <- ScrAll
  NItems = 2
  NH = 3
  MaxObj = 3
  MaxSock = 3
  CbUnderLock = FALSE
  Capture = TRUE
  GiveUp = TRUE
  PreCheckClosed = TRUE
  NilPacketSock = TRUE
  CloseWaits = TRUE
  ErrAware = TRUE
  RecheckAfterRecv = FALSE
  AcceptErrors = 1
INVARIANTS NoBadEvent CleanAfterAllClosed
VIEW View
