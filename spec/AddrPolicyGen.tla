---------------------------- MODULE AddrPolicyGen ----------------------------
(* Spec -> code.
   (a) Exports of the property layer, printed once per run:
         <<"TABLE", json>>  the block tables (the thorough tier sweeps all 2^32 IPv4 addresses against them)
         <<"ADDRS", json>>  the decision list: every boundary / mapped / embedded address with its class
   (b) Behaviour generation: the scenario machine is explored exhaustively (BFS, no VIEW) over the destinations that
       are executable in the sandbox; every finished scenario (a TCP request, or a UDP association of 1..MaxPkts
       datagrams) ends with one Finish step that prints its history as JSON. *)
EXTENDS AddrPolicy, Json, SequencesExt
VARIABLE done
GenInit == Init /\ done = FALSE
ScenarioOver == \/ mode = "tcp" /\ tphase = "closed"
                \/ mode = "udp" /\ ustep = "idle" /\ upos >= 1
Finish == ScenarioOver /\ ~done /\ done' = TRUE /\ UNCHANGED vars
GenNext == (~done /\ Next /\ UNCHANGED done) \/ Finish
GenSpec == GenInit /\ [][GenNext]_<<vars, done>>
DumpInv == done => PrintT(<<"BEH", ToJson(tr)>>)

ASSUME ExportTable ==
    PrintT(<<"TABLE", ToJson([v4 |-> V4Blocks, v6 |-> V6Blocks, gu6 |-> GlobalUnicast6,
                              standin |-> SetToSeq(StandIn), sinks |-> SetToSeq(Sinks)])>>)
ASSUME ExportAddrs ==
    PrintT(<<"ADDRS", ToJson(SetToSeq({[a |-> x, cls |-> Class(x)] : x \in DecisionAddrs}))>>)
===============================================================================
