------------------------------ MODULE AddrPolicy ------------------------------
(***************************************************************************)
(* C05 "The proxy never sends traffic to non-public destinations".         *)
(*                                                                         *)
(* Property layer  : MustReject / MustAccept, defined from the tables of   *)
(*                   special-purpose address blocks below (IANA IPv4/IPv6  *)
(*                   special-purpose registries + multicast + 240/4).      *)
(*                   Everything in a special block that the property does  *)
(*                   not name is DON'T CARE (neither verdict is an alarm). *)
(* Mechanism layer : (1) net/private_net.go RequirePublicIP transcribed    *)
(*                   with Go's net.IP predicates (CodeRejects/CodeStatus); *)
(*                   (2) WHERE it is applied: service/tcp.go:177-184 (the  *)
(*                   net.Dialer Control hook, once per resolved address,   *)
(*                   on the address STRING) and service/udp.go:165-220     *)
(*                   (validatePacket in the new-association and in the     *)
(*                   known-association branch, for every datagram).        *)
(* TLC checks mechanism => property for every block boundary (first, last, *)
(* just-before, just-after, second, last-but-one, a middle address; IPv4-  *)
(* mapped forms), every destination encoding and every short UDP           *)
(* association.                                                            *)
(*                                                                         *)
(* The logging level of the handlers (loglvl) is part of the environment:  *)
(* every scenario is explored, generated and executed at "info" and at     *)
(* "debug"; the decisions must be the same.                                *)
(*                                                                         *)
(* Addresses: IPv4 = <<4 octets>>, IPv6 = <<8 hextets>> (TLC integers are  *)
(* 32-bit), Nil = <<>> (Go's nil net.IP).                                  *)
(*                                                                         *)
(* Configurations: MC_AddrPolicy.cfg + MC_AddrPolicyWide.cfg (quick),      *)
(* MC_AddrPolicyThorough.cfg; MC_AddrPolicyNegCgnat.cfg and                *)
(* MC_AddrPolicyNegUdp.cfg are NEGATIVE (a weakened mechanism that TLC     *)
(* must refute); Gen_AddrPolicy*.cfg (AddrPolicyGen: exports + scenarios); *)
(* AddrPolicyTrace.cfg (AddrPolicyTrace: traces of the real code).         *)
(***************************************************************************)
EXTENDS Integers, Sequences, FiniteSets, TLC

CONSTANTS Modes,        \* subset of {"tcp","udp","dec"}: which scenario families a behaviour may be
          LogLevels,    \* subset of {"info","debug"}: logger level of the handler, an ENVIRONMENT parameter
          MaxPkts,      \* datagrams per UDP association
          ValidateKnown \* TRUE = udp.go:200 validates in the known-association branch (the real code)

Nil == <<>>
IsV4(a) == Len(a) = 4
IsV6(a) == Len(a) = 8
W(a) == IF Len(a) = 4 THEN 8 ELSE 16                   \* bits per unit
Clamp(k, w) == IF k >= w THEN w ELSE IF k <= 0 THEN 0 ELSE k
\* number of prefix bits that fall into unit i
PBits(n, i, w) == Clamp(n - w * (i - 1), w)
InPrefix(a, base, n) ==
    /\ Len(a) = Len(base)
    /\ \A i \in 1..Len(a) : LET d == 2^(W(a) - PBits(n, i, W(a))) IN (a[i] \div d) = (base[i] \div d)

Zero6 == <<0,0,0,0,0,0,0,0>>
IsMapped(a) == IsV6(a) /\ a[1] = 0 /\ a[2] = 0 /\ a[3] = 0 /\ a[4] = 0 /\ a[5] = 0 /\ a[6] = 65535
Unmap(a) == IF IsMapped(a) THEN <<a[7] \div 256, a[7] % 256, a[8] \div 256, a[8] % 256>> ELSE a
Map(a) == <<0,0,0,0,0,65535, a[1] * 256 + a[2], a[3] * 256 + a[4]>>     \* ::ffff:a.b.c.d
Compat(a) == <<0,0,0,0,0,0, a[1] * 256 + a[2], a[3] * 256 + a[4]>>      \* ::a.b.c.d (deprecated)
Nat64(a) == <<100,65435,0,0,0,0, a[1] * 256 + a[2], a[3] * 256 + a[4]>> \* 64:ff9b::a.b.c.d
SixToFour(a) == <<8194, a[1] * 256 + a[2], a[3] * 256 + a[4],0,0,0,0,1>>\* 2002:AABB:CCDD::1

(***************************************************************************)
(* PROPERTY LAYER: the tables.  c = "reject": named by the property        *)
(* (loopback, unspecified, link-local, multicast, broadcast, RFC 1918,     *)
(* 100.64/10, fc00::/7).  c = "special": other special-purpose blocks      *)
(* (don't care).  A "reject" block wins over an enclosing "special" one.   *)
(***************************************************************************)
Blk(n, b, p, c) == [n |-> n, b |-> b, p |-> p, c |-> c]
V4Blocks == <<
  Blk("unspecified",      <<0,0,0,0>>,         32, "reject"),
  Blk("this-network",     <<0,0,0,0>>,          8, "special"),
  Blk("rfc1918-10",       <<10,0,0,0>>,         8, "reject"),
  Blk("cgnat-rfc6598",    <<100,64,0,0>>,      10, "reject"),
  Blk("loopback",         <<127,0,0,0>>,        8, "reject"),
  Blk("link-local",       <<169,254,0,0>>,     16, "reject"),
  Blk("rfc1918-172",      <<172,16,0,0>>,      12, "reject"),
  Blk("ietf-protocol",    <<192,0,0,0>>,       24, "special"),
  Blk("test-net-1",       <<192,0,2,0>>,       24, "special"),
  Blk("as112-v4",         <<192,31,196,0>>,    24, "special"),
  Blk("amt",              <<192,52,193,0>>,    24, "special"),
  Blk("6to4-relay",       <<192,88,99,0>>,     24, "special"),
  Blk("rfc1918-192",      <<192,168,0,0>>,     16, "reject"),
  Blk("as112-delegation", <<192,175,48,0>>,    24, "special"),
  Blk("benchmarking",     <<198,18,0,0>>,      15, "special"),
  Blk("test-net-2",       <<198,51,100,0>>,    24, "special"),
  Blk("test-net-3",       <<203,0,113,0>>,     24, "special"),
  Blk("multicast",        <<224,0,0,0>>,        4, "reject"),
  Blk("reserved-240",     <<240,0,0,0>>,        4, "special"),
  Blk("broadcast",        <<255,255,255,255>>, 32, "reject") >>

V6Blocks == <<
  Blk("unspecified",      Zero6,                          128, "reject"),
  Blk("loopback",         <<0,0,0,0,0,0,0,1>>,            128, "reject"),
  Blk("v4-compatible",    Zero6,                           96, "special"),
  Blk("v4-mapped",        <<0,0,0,0,0,65535,0,0>>,         96, "special"),  \* only reached un-mapped; listed for the sweep
  Blk("nat64",            <<100,65435,0,0,0,0,0,0>>,       96, "special"),
  Blk("nat64-local",      <<100,65435,1,0,0,0,0,0>>,       48, "special"),
  Blk("discard-only",     <<256,0,0,0,0,0,0,0>>,           64, "special"),
  Blk("ietf-protocol",    <<8193,0,0,0,0,0,0,0>>,          23, "special"),
  Blk("documentation",    <<8193,3512,0,0,0,0,0,0>>,       32, "special"),
  Blk("6to4",             <<8194,0,0,0,0,0,0,0>>,          16, "special"),
  Blk("as112-delegation", <<9760,79,32768,0,0,0,0,0>>,     48, "special"),
  Blk("documentation-2",  <<16383,0,0,0,0,0,0,0>>,         20, "special"),
  Blk("srv6-sids",        <<24320,0,0,0,0,0,0,0>>,         16, "special"),
  Blk("ula-rfc4193",      <<64512,0,0,0,0,0,0,0>>,          7, "reject"),
  Blk("link-local",       <<65152,0,0,0,0,0,0,0>>,         10, "reject"),
  Blk("site-local",       <<65216,0,0,0,0,0,0,0>>,         10, "special"),
  Blk("multicast",        <<65280,0,0,0,0,0,0,0>>,          8, "reject") >>
\* the only IPv6 space allocated for global unicast; everything outside is reserved by the IETF (don't care)
GlobalUnicast6 == [b |-> <<8192,0,0,0,0,0,0,0>>, p |-> 3]

BlocksOf(u) == IF IsV4(u) THEN V4Blocks ELSE V6Blocks
InBlock(u, blk) == InPrefix(u, blk.b, blk.p)
MustRejectU(u) == \E i \in DOMAIN BlocksOf(u) : BlocksOf(u)[i].c = "reject" /\ InBlock(u, BlocksOf(u)[i])
InSpecialU(u)  == \E i \in DOMAIN BlocksOf(u) : InBlock(u, BlocksOf(u)[i])
ValidAddr(a) == IsV4(a) \/ IsV6(a)
\* evaluated after un-mapping ::ffff:a.b.c.d
MustReject(a) == ValidAddr(a) /\ MustRejectU(Unmap(a))
MustAccept(a) == /\ ValidAddr(a)
                 /\ LET u == Unmap(a) IN
                      /\ ~InSpecialU(u)
                      /\ IsV6(u) => InPrefix(u, GlobalUnicast6.b, GlobalUnicast6.p)
Class(a) == IF MustReject(a) THEN "reject" ELSE IF MustAccept(a) THEN "accept" ELSE "dontcare"
\* addresses that stand in for "public" in behavioural scenarios of the sandbox: 192.0.2.2 is the only locally
\* reachable non-loopback IPv4 address (eth0).  TEST-NET-1 is don't-care in the table; the code takes the same
\* path for it as for any public address.
StandIn == { <<192,0,2,2>> }
MustAcceptB(a) == MustAccept(a) \/ Unmap(a) \in StandIn

AddrErr == {"ERR_ADDRESS_INVALID", "ERR_ADDRESS_PRIVATE"}

(* ---------- block boundaries ---------- *)
HostMask(n, i, w) == 2^(w - PBits(n, i, w)) - 1
First(blk) == blk.b
Last(blk)  == [i \in 1..Len(blk.b) |-> blk.b[i] + HostMask(blk.p, i, W(blk.b))]
Middle(blk) == [i \in 1..Len(blk.b) |-> blk.b[i] + (HostMask(blk.p, i, W(blk.b)) \div 3)]
RECURSIVE SuccAt(_, _), PredAt(_, _)
SuccAt(a, i) == IF i = 0 THEN a
                ELSE IF a[i] < 2^W(a) - 1 THEN [a EXCEPT ![i] = a[i] + 1]
                ELSE SuccAt([a EXCEPT ![i] = 0], i - 1)
PredAt(a, i) == IF i = 0 THEN a
                ELSE IF a[i] > 0 THEN [a EXCEPT ![i] = a[i] - 1]
                ELSE PredAt([a EXCEPT ![i] = 2^W(a) - 1], i - 1)
Succ(a) == SuccAt(a, Len(a))      \* wraps around at the top of the address space
Pred(a) == PredAt(a, Len(a))
BoundaryOf(blk) == {First(blk), Last(blk), Pred(First(blk)), Succ(Last(blk)), Succ(First(blk)), Pred(Last(blk)),
                    Middle(blk)}
WellFormed(blk) == \A i \in 1..Len(blk.b) :
                      /\ blk.b[i] \in 0..(2^W(blk.b) - 1)
                      /\ blk.b[i] % (HostMask(blk.p, i, W(blk.b)) + 1) = 0
ASSUME TablesWellFormed ==
    /\ \A i \in DOMAIN V4Blocks : Len(V4Blocks[i].b) = 4 /\ V4Blocks[i].p \in 0..32 /\ WellFormed(V4Blocks[i])
    /\ \A i \in DOMAIN V6Blocks : Len(V6Blocks[i].b) = 8 /\ V6Blocks[i].p \in 0..128 /\ WellFormed(V6Blocks[i])

(***************************************************************************)
(* MECHANISM LAYER (1): net/private_net.go + Go's net.IP predicates.       *)
(***************************************************************************)
Net(b, p) == [b |-> b, p |-> p]
PrivateNets == <<            \* private_net.go:25-35
  Net(<<10,0,0,0>>, 8), Net(<<172,16,0,0>>, 12), Net(<<192,168,0,0>>, 16),
  Net(<<64512,0,0,0,0,0,0,0>>, 7), Net(<<100,64,0,0>>, 10) >>
\* the same list without 100.64.0.0/10: only used by the negative (anti-vacuity) configuration
PrivateNetsNoCgnat == <<
  Net(<<10,0,0,0>>, 8), Net(<<172,16,0,0>>, 12), Net(<<192,168,0,0>>, 16),
  Net(<<64512,0,0,0,0,0,0,0>>, 7) >>

To4(a) == IF IsV4(a) THEN a ELSE IF IsMapped(a) THEN Unmap(a) ELSE Nil     \* net.IP.To4
GoUnspecified(a) == To4(a) = <<0,0,0,0>> \/ a = Zero6                      \* Equal(IPv4zero) || Equal(IPv6unspecified)
GoLoopback(a)  == IF To4(a) # Nil THEN To4(a)[1] = 127 ELSE a = <<0,0,0,0,0,0,0,1>>
GoMulticast(a) == IF To4(a) # Nil THEN To4(a)[1] \div 16 = 14 ELSE IsV6(a) /\ a[1] \div 256 = 255
GoLinkLocalUnicast(a) == IF To4(a) # Nil THEN To4(a)[1] = 169 /\ To4(a)[2] = 254
                         ELSE IsV6(a) /\ a[1] \div 64 = 1018               \* fe80::/10
GoBroadcast(a) == To4(a) = <<255,255,255,255>>
GoGlobalUnicast(a) == /\ ValidAddr(a)                                      \* len(ip) == 4 || len(ip) == 16
                      /\ ~GoBroadcast(a) /\ ~GoUnspecified(a) /\ ~GoLoopback(a)
                      /\ ~GoMulticast(a) /\ ~GoLinkLocalUnicast(a)
\* net.IPNet.Contains: the address is converted with To4 when possible, then lengths must agree
GoContains(n, a) == LET x == IF To4(a) # Nil THEN To4(a) ELSE a IN InPrefix(x, n.b, n.p)
GoPrivate(a) == \E i \in DOMAIN PrivateNets : GoContains(PrivateNets[i], a) \* private_net.go:43-50
CodeStatus(a) == IF ~GoGlobalUnicast(a) THEN "ERR_ADDRESS_INVALID"          \* private_net.go:56-58
                 ELSE IF GoPrivate(a) THEN "ERR_ADDRESS_PRIVATE"            \* private_net.go:59-61
                 ELSE "OK"
CodeRejects(a) == CodeStatus(a) # "OK"

(***************************************************************************)
(* Destinations (SOCKS5 address encodings) and name resolution.            *)
(*   t  address type 1 (IPv4) / 4 (IPv6) / 3 (domain name)                 *)
(*   k  "ip" | "empty" (zero-length name) | "lit" (IP literal as name,     *)
(*      z = it carries a zone: fe80::x%eth0) | "host" (h = name)           *)
(* A candidate is what the Go resolver hands to the dialer:                *)
(*   w  the address the kernel would be asked to reach (mapped -> IPv4;    *)
(*      empty host -> 0.0.0.0, i.e. this host)                             *)
(*   z  carries a zone,  e  came from an empty host                        *)
(***************************************************************************)
Dest(t, k, a, z, h) == [t |-> t, k |-> k, a |-> a, z |-> z, h |-> h]
IpDest(a)  == Dest(IF IsV4(a) THEN 1 ELSE 4, "ip", a, FALSE, "")
LitDest(a) == Dest(3, "lit", a, FALSE, "")
ZoneDest(a) == Dest(3, "lit", a, TRUE, "")
EmptyDest  == Dest(3, "empty", Nil, FALSE, "")
HostDest(h) == Dest(3, "host", Nil, FALSE, h)
Cand(w, z, e) == [w |-> w, z |-> z, e |-> e]

\* sandbox addresses (harness sinks) and a few others used by name below
Lo4 == <<127,0,0,1>>
Lo6 == <<0,0,0,0,0,0,0,1>>
Ula == <<64768,0,0,0,0,0,0,2>>             \* fd00::2 (eth0)
LL6 == <<65152,0,0,0,252,255,65024,1>>     \* fe80::fc:ff:fe00:1 (eth0)
Pub == <<192,0,2,2>>                       \* eth0, the reachable stand-in
Un4 == <<0,0,0,0>>
P10 == <<10,0,0,1>>
G4  == <<8,8,8,8>>
G6  == <<8193,18528,18528,0,0,0,0,34952>>  \* 2001:4860:4860::8888

\* resolver answer sets: single private, single public, mixed private+public, AAAA ULA, mixed families, ...
Answers == [ hpriv    |-> {Lo4},
             hpub     |-> {Pub},
             hmix     |-> {Lo4, Pub},
             hula     |-> {Ula},
             hfam     |-> {Lo4, Ula},
             hfampub  |-> {Ula, Pub},
             hlo6     |-> {Lo6},
             hpriv2   |-> {Lo4, Lo6},
             hp10     |-> {P10},
             hmapped  |-> {Map(Lo4)},
             hpub2    |-> {Pub, G4},       \* two acceptable addresses (model only: 8.8.8.8 is unreachable here)
             hnone    |-> {} ]
Hosts == DOMAIN Answers
BehHosts == Hosts \ {"hpub2"}

\* ans = the answer set of the resolver for d.h (only used for k = "host")
CandsOf(d, ans) ==
    IF d.k = "ip" THEN {Cand(Unmap(d.a), FALSE, FALSE)}
    ELSE IF d.k = "lit" THEN {Cand(Unmap(d.a), d.z, FALSE)}
    ELSE IF d.k = "empty" THEN {Cand(Un4, FALSE, TRUE)}
    ELSE {Cand(Unmap(a), FALSE, FALSE) : a \in ans}
Cands(d) == CandsOf(d, IF d.k = "host" THEN Answers[d.h] ELSE {})

\* tcp.go:181-182: ip, _, _ := SplitHostPort(address); ParseIP(ip) -- the 16-byte form; nil for "" and for a zoned literal
SeenTcp(c) == IF c.e \/ c.z THEN Nil ELSE IF IsV4(c.w) THEN Map(c.w) ELSE c.w
\* udp.go:233-237: ResolveUDPAddr(...).IP -- nil for an empty host; the zone is kept apart from the IP
SeenUdp(c) == IF c.e THEN Nil ELSE c.w

\* the harness binds a sink (TCP listener + UDP socket) on each of these; only they can OBSERVE a contact
Sinks == {Lo4, Lo6, Ula, LL6, Pub}
\* where a connect(2)/sendto(2) succeeds in the model's environment (0.0.0.0 and :: reach this host)
Listening == Sinks \cup {Un4, Zero6}

(* ---------- address universes ---------- *)
Reps4 == { <<1,1,1,1>>, G4, <<100,63,255,254>>, <<172,24,0,1>>, <<172,31,255,254>>, <<192,168,1,1>>, P10, Lo4, Pub,
           <<100,64,0,1>>, <<100,127,255,254>>, <<169,254,1,1>>, <<224,0,0,1>>, <<239,255,255,250>>, <<45,33,32,156>> }
Reps6 == { G6, <<9734,18176,18176,0,0,0,0,4369>>, <<10752,0,0,0,0,0,0,1>>, <<16382,0,0,0,0,0,0,1>>, Lo6, Ula, LL6,
           <<65282,0,0,0,0,0,0,1>>, <<64512,0,0,0,0,0,0,1>>, <<65023,65535,65535,65535,65535,65535,65535,65535>> }
Boundary4 == UNION {BoundaryOf(V4Blocks[i]) : i \in DOMAIN V4Blocks} \cup Reps4
Boundary6 == UNION {BoundaryOf(V6Blocks[i]) : i \in DOMAIN V6Blocks} \cup Reps6
                \cup {GlobalUnicast6.b, Pred(GlobalUnicast6.b),
                      <<16383,65535,65535,65535,65535,65535,65535,65535>>, <<16384,0,0,0,0,0,0,0>>}
Mapped4   == {Map(a) : a \in Boundary4}
Embedded  == UNION {{Compat(a), Nat64(a), SixToFour(a)} : a \in {Lo4, P10, <<192,168,1,1>>, <<100,64,0,1>>, G4}}
DecisionAddrs == Boundary4 \cup Mapped4 \cup Boundary6 \cup Embedded

\* --- exhaustive model: every boundary address in every literal encoding + names
McTcpDests == {IpDest(a) : a \in DecisionAddrs} \cup {LitDest(a) : a \in DecisionAddrs}
              \cup {ZoneDest(LL6), EmptyDest} \cup {HostDest(h) : h \in Hosts}
McUdpDests == {IpDest(a) : a \in {Pub, Lo4, Ula, P10, <<100,64,0,0>>, G4, Map(Lo4), <<255,255,255,255>>, <<172,31,255,255>>}}
              \cup {EmptyDest, ZoneDest(LL6), HostDest("hpriv"), HostDest("hpub"), HostDest("hmix"), HostDest("hula")}
McUdpFirst == {IpDest(a) : a \in DecisionAddrs} \cup McUdpDests
McUdpSecond == {IpDest(Pub), IpDest(Lo4), IpDest(<<100,64,0,0>>), HostDest("hpriv")}

\* --- behavioural (executable in the sandbox against sink sockets); see harness/cmd/addrpolicy
BehTcpDests ==
    {IpDest(a) : a \in {Lo4, Lo6, Ula, LL6, Un4, Zero6, Map(Lo4), Map(P10), P10, <<172,24,0,1>>, <<172,31,255,254>>,
                        <<192,168,1,1>>, <<100,64,0,1>>, <<100,127,255,254>>, <<169,254,1,1>>, <<224,0,0,1>>,
                        <<255,255,255,255>>, <<65282,0,0,0,0,0,0,1>>, Pub, Map(Pub), G4, G6}}
    \cup {LitDest(a) : a \in {Lo4, Lo6, Ula, Map(Lo4), Pub, P10, Un4, <<100,64,0,1>>, Map(Pub)}}
    \cup {ZoneDest(LL6), EmptyDest} \cup {HostDest(h) : h \in BehHosts}
BehUdpDests ==
    {IpDest(a) : a \in {Pub, Lo4, Ula, Map(Lo4), P10, <<100,64,0,1>>}}
    \cup {LitDest(Lo6), EmptyDest, HostDest("hpriv"), HostDest("hmix")}
BehUdpDestsWide == BehUdpDests \cup {IpDest(Lo6), IpDest(Un4), IpDest(<<172,24,0,1>>), ZoneDest(LL6), HostDest("hula"),
                                     HostDest("hpub"), IpDest(Map(Pub))}

CONSTANTS TcpDests, UdpDests, UdpFirst   \* substituted by the sets above in the .cfg files

(***************************************************************************)
(* MECHANISM LAYER (2): where the policy is applied.                       *)
(***************************************************************************)
VARIABLES mode,
          loglvl,     \* level of the logger given to the stream / packet handler (SetLogger; the binary's -verbose).
                      \* No action reads it: logging must not change any decision of the address policy.
          \* TCP: one authenticated connection (tcp.go:342-368 + net.Dialer)
          tphase,     \* "idle" -> "resolve" -> "dial" -> ("relay" ->) "closed"
          treq,       \* the destination the client asked for
          todo,       \* candidates the dialer has not tried yet (order is the resolver's: any)
          firstErr,   \* net.Dialer reports the first error
          tstatus,    \* status given to AddClosed
          contacted,  \* OBSERVATION: addresses a SYN was sent to
          \* UDP: one association (udp.go:138-221)
          nat,        \* the NAT entry exists (targetConn != nil at :165)
          upos,       \* datagrams received so far
          ustep,      \* "idle" -> "new"/"known" -> "validate" -> "send" -> "report" -> "idle"
          ucur, ucand, ustat,
          sent,       \* OBSERVATION: set of <<position, address>> datagrams written to a target socket
          ulog,       \* OBSERVATION: sequence of <<position, status>> given to AddPacketFromClient
          upk,        \* history of the destinations of the association (for the status invariants)
          \* decision query: one call of RequirePublicIP
          dphase, q, qstat,
          tr          \* behaviour history (hidden by VIEW)

tvars == <<tphase, treq, todo, firstErr, tstatus, contacted>>
uvars == <<nat, upos, ustep, ucur, ucand, ustat, sent, ulog, upk>>
dvars == <<dphase, q, qstat>>
vars  == <<mode, loglvl, tvars, uvars, dvars, tr>>

NoDest == Dest(0, "none", Nil, FALSE, "")
NoCand == Cand(Nil, FALSE, FALSE)

Init == /\ mode \in Modes
        /\ loglvl \in (IF mode = "dec" THEN {"info"} ELSE LogLevels)
        /\ tphase = "idle" /\ treq = NoDest /\ todo = {} /\ firstErr = "" /\ tstatus = "" /\ contacted = {}
        /\ nat = FALSE /\ upos = 0 /\ ustep = "idle" /\ ucur = NoDest /\ ucand = NoCand /\ ustat = ""
        /\ sent = {} /\ ulog = <<>> /\ upk = <<>>
        /\ dphase = "idle" /\ q = Nil /\ qstat = ""
        /\ tr = <<>>

(* ---- decision query: RequirePublicIP(a) ---- *)
Decide(a) == /\ mode = "dec" /\ dphase = "idle"
             /\ q' = a /\ qstat' = CodeStatus(a) /\ dphase' = "done"
             /\ UNCHANGED <<mode, loglvl, tvars, uvars, tr>>

(* ---- TCP ---- *)
\* tcp.go:351 getProxyRequest: the authenticated client names its destination
TcpRequest(d) == /\ mode = "tcp" /\ tphase = "idle"
                 /\ treq' = d /\ tphase' = "resolve"
                 /\ tr' = Append(tr, [a |-> "Tcp", log |-> loglvl, d |-> d, ans |-> IF d.k = "host" THEN Answers[d.h] ELSE {},
                                      cls |-> {Class(c.w) : c \in Cands(d)}])
                 /\ UNCHANGED <<mode, loglvl, todo, firstErr, tstatus, contacted, uvars, dvars>>
\* tcp.go:361 -> TCPDialer.DialStream -> net.Dialer.DialContext: resolve the host part into the address list
TcpResolve == /\ tphase = "resolve"
              /\ todo' = Cands(treq) /\ tphase' = "dial"
              /\ UNCHANGED <<mode, loglvl, treq, firstErr, tstatus, contacted, uvars, dvars, tr>>
\* tcp.go:180-183: the Control hook runs after socket(2), before connect(2), once per address tried; an error makes
\* this attempt fail and the dialer goes on with the next address
TcpControlReject(c) == /\ tphase = "dial" /\ c \in todo
                       /\ CodeRejects(SeenTcp(c))
                       /\ todo' = todo \ {c}
                       /\ firstErr' = IF firstErr = "" THEN CodeStatus(SeenTcp(c)) ELSE firstErr
                       /\ UNCHANGED <<mode, loglvl, tphase, treq, tstatus, contacted, uvars, dvars, tr>>
\* connect(2): a SYN leaves for c.w.  Enabled only if the hook accepted the address.
TcpConnect(c) == /\ tphase = "dial" /\ c \in todo
                 /\ ~CodeRejects(SeenTcp(c))
                 /\ contacted' = contacted \cup {c.w}
                 /\ todo' = todo \ {c}
                 /\ IF c.w \in Listening
                      THEN tphase' = "relay" /\ UNCHANGED firstErr
                      ELSE /\ firstErr' = IF firstErr = "" THEN "ERR_CONNECT" ELSE firstErr
                           /\ UNCHANGED tphase
                 /\ UNCHANGED <<mode, loglvl, treq, tstatus, uvars, dvars, tr>>
\* happy eyeballs: an attempt of the other family may already be under way when the first connection succeeds
TcpRaceConnect(c) == /\ tphase = "relay" /\ c \in todo
                     /\ ~CodeRejects(SeenTcp(c))
                     /\ contacted' = contacted \cup {c.w}
                     /\ todo' = todo \ {c}
                     /\ UNCHANGED <<mode, loglvl, tphase, treq, firstErr, tstatus, uvars, dvars, tr>>
\* tcp.go:295-297 every attempt failed: the first error decides the status (ensureConnectionError)
TcpDialFailed == /\ tphase = "dial" /\ todo = {}
                 /\ tstatus' = IF firstErr = "" THEN "ERR_CONNECT" ELSE firstErr
                 /\ tphase' = "closed"
                 /\ UNCHANGED <<mode, loglvl, treq, todo, firstErr, contacted, uvars, dvars, tr>>
\* tcp.go:299-328 relay until both directions are done
TcpRelayDone == /\ tphase = "relay"
                /\ tstatus' = "OK" /\ tphase' = "closed"
                /\ UNCHANGED <<mode, loglvl, treq, todo, firstErr, contacted, uvars, dvars, tr>>

TcpNext == \/ \E d \in TcpDests : TcpRequest(d)
           \/ TcpResolve
           \/ \E c \in todo : TcpControlReject(c)
           \/ \E c \in todo : TcpConnect(c)
           \/ \E c \in todo : TcpRaceConnect(c)
           \/ TcpDialFailed \/ TcpRelayDone

(* ---- UDP ---- *)
\* udp.go:139 ReadFrom + :165 nm.Get: which branch handles the datagram
UdpRecv(d) == /\ mode = "udp" /\ ustep = "idle" /\ upos < MaxPkts
              /\ upos' = upos + 1 /\ ucur' = d
              /\ ustep' = IF nat THEN "known" ELSE "new"
              /\ upk' = Append(upk, d)
              /\ tr' = Append(tr, [a |-> "Pkt", log |-> loglvl, pos |-> upos + 1, d |-> d,
                                   ans |-> IF d.k = "host" THEN Answers[d.h] ELSE {},
                                   cls |-> {Class(c.w) : c \in Cands(d)}])
              /\ UNCHANGED <<mode, loglvl, nat, ucand, ustat, sent, ulog, tvars, dvars>>
\* udp.go:233 net.ResolveUDPAddr picks ONE of the resolved addresses (or fails)
UdpResolve == /\ ustep \in {"new", "known"}
              /\ IF Cands(ucur) = {}
                   THEN ustat' = "ERR_RESOLVE_ADDRESS" /\ ustep' = "report" /\ UNCHANGED ucand
                   ELSE /\ \E c \in Cands(ucur) : ucand' = c
                        /\ ustep' = IF ustep = "new" THEN "validateNew" ELSE "validateKnown"
                        /\ UNCHANGED ustat
              /\ UNCHANGED <<mode, loglvl, nat, upos, ucur, sent, ulog, upk, tvars, dvars, tr>>
\* udp.go:180 (first datagram of an association) -> :184-188 socket + NAT entry
UdpValidateNew == /\ ustep = "validateNew"
                  /\ IF CodeRejects(SeenUdp(ucand))
                       THEN ustat' = CodeStatus(SeenUdp(ucand)) /\ ustep' = "report" /\ UNCHANGED nat
                       ELSE nat' = TRUE /\ ustep' = "send" /\ UNCHANGED ustat
                  /\ UNCHANGED <<mode, loglvl, upos, ucur, ucand, sent, ulog, upk, tvars, dvars, tr>>
\* udp.go:200 (every later datagram).  ValidateKnown = FALSE models "only the first datagram is validated".
UdpValidateKnown == /\ ustep = "validateKnown"
                    /\ IF ValidateKnown /\ CodeRejects(SeenUdp(ucand))
                         THEN ustat' = CodeStatus(SeenUdp(ucand)) /\ ustep' = "report"
                         ELSE ustep' = "send" /\ UNCHANGED ustat
                    /\ UNCHANGED <<mode, loglvl, nat, upos, ucur, ucand, sent, ulog, upk, tvars, dvars, tr>>
\* udp.go:206 targetConn.WriteTo: the datagram leaves for ucand.w
UdpSendToTarget == /\ ustep = "send"
                   /\ sent' = sent \cup {<<upos, ucand.w>>}
                   /\ ustat' \in {"OK", "ERR_WRITE"} /\ ustep' = "report"
                   /\ UNCHANGED <<mode, loglvl, nat, upos, ucur, ucand, ulog, upk, tvars, dvars, tr>>
\* udp.go:213-220: reported only if there is an association (targetConn != nil)
UdpReport == /\ ustep = "report"
             /\ ulog' = IF nat THEN Append(ulog, <<upos, ustat>>) ELSE ulog
             /\ ustep' = "idle" /\ ustat' = "" /\ ucur' = NoDest /\ ucand' = NoCand
             /\ UNCHANGED <<mode, loglvl, nat, upos, sent, upk, tvars, dvars, tr>>

UdpNext == \/ \E d \in (IF upos = 0 THEN UdpFirst ELSE UdpDests) : UdpRecv(d)
           \/ UdpResolve \/ UdpValidateNew \/ UdpValidateKnown \/ UdpSendToTarget \/ UdpReport

Next == (\E a \in DecisionAddrs \cup {Nil} : Decide(a)) \/ TcpNext \/ UdpNext
Spec == Init /\ [][Next]_vars

(***************************************************************************)
(* PROPERTY LAYER: invariants over observations only.                      *)
(***************************************************************************)
\* no SYN and no datagram ever leaves for an address the property names
NoPrivateContact == /\ \A a \in contacted : ~MustReject(a)
                    /\ \A s \in sent : ~MustReject(s[2])
\* RequirePublicIP agrees with the tables
TableAgrees == dphase = "done" =>
                 /\ MustReject(q) => qstat \in AddrErr
                 /\ MustAccept(q) => qstat = "OK"
                 /\ q = Nil => qstat \in AddrErr
AllReject(C) == C # {} /\ \A c \in C : MustReject(c.w)
AllAccept(C) == C # {} /\ \A c \in C : MustAcceptB(c.w)
\* a destination all of whose addresses are forbidden ends with an ERR_ADDRESS_* status; a public one never does
TcpStatusClass == tphase = "closed" =>
                    /\ AllReject(Cands(treq)) => tstatus \in AddrErr
                    /\ AllAccept(Cands(treq)) => tstatus \notin AddrErr
UdpStatusClass == \A i \in DOMAIN ulog :
                    LET C == Cands(upk[ulog[i][1]]) IN
                      /\ AllReject(C) => ulog[i][2] \in AddrErr
                      /\ AllAccept(C) => ulog[i][2] \notin AddrErr
\* a public first datagram is not dropped silently: it opens the association
UdpPublicOpens == (ustep = "idle" /\ upos >= 1 /\ AllAccept(Cands(upk[1]))) => nat

(* ---- closed forms of the mechanism's outcomes, used by AddrPolicyTrace; tied to the machine here ---- *)
AllowedTcp(C) == {c \in C : ~CodeRejects(SeenTcp(c))}
TcpOutcomes(C) ==
    LET A   == AllowedTcp(C)
        Aw  == {c.w : c \in A}
        win == Aw \cap Listening
    IN  {<<S, "OK">> : S \in {S \in SUBSET Aw : S \cap win # {}}}
        \cup (IF win # {} THEN {}
              ELSE {<<Aw, st>> : st \in {CodeStatus(SeenTcp(r)) : r \in C \ A}
                                        \cup (IF A # {} \/ C = {} THEN {"ERR_CONNECT"} ELSE {})})
TcpOutcomeAgrees == tphase = "closed" => <<contacted, tstatus>> \in TcpOutcomes(Cands(treq))
\* for one datagram: <<set of addresses written to, status>>
UdpOutcomes(C, validated) ==
    IF C = {} THEN {<<{}, "ERR_RESOLVE_ADDRESS">>}
    ELSE UNION {IF validated /\ CodeRejects(SeenUdp(c)) THEN {<<{}, CodeStatus(SeenUdp(c))>>}
                ELSE {<<{c.w}, "OK">>, <<{c.w}, "ERR_WRITE">>} : c \in C}
UdpOutcomeAgrees == \A i \in DOMAIN ulog :
                      LET p == ulog[i][1] IN
                        <<{s[2] : s \in {x \in sent : x[1] = p}}, ulog[i][2]>> \in UdpOutcomes(Cands(upk[p]), TRUE)

TypeOK == /\ mode \in {"tcp", "udp", "dec"} /\ loglvl \in {"info", "debug"}
          /\ tphase \in {"idle", "resolve", "dial", "relay", "closed"}
          /\ ustep \in {"idle", "new", "known", "validateNew", "validateKnown", "send", "report"}
          /\ upos \in 0..MaxPkts /\ nat \in BOOLEAN
          /\ dphase \in {"idle", "done"}

View == <<mode, loglvl, tvars, uvars, dvars>>

===============================================================================
