---------------------------- MODULE TcpConnTraceM ----------------------------
(***************************************************************************)
(* Code -> spec, mechanism pass (drift report).  Same input as              *)
(* TcpConnTrace (one connection record per line, single-connection runs).  *)
(* For every record TLC searches the behaviours of the MECHANISM layer of  *)
(* TcpConn.tla (Conns = {1}) that                                          *)
(*   - perform the recorded environment script in order (cs.script:        *)
(*     Connect, CSend(token), CFin, TSend, TFin, TRst, Tick, CloseListener), *)
(*     each step only when the model's observer logs are at least as long  *)
(*     as the harness had seen them before that step (cs.snaps),           *)
(*   - take any of the handler's own actions in between, as long as what   *)
(*     the model's observers log stays a prefix of what the real observers *)
(*     logged (target, client, metrics name+status, dials),                *)
(* and accepts the record when the script is consumed, the handler is done *)
(* and the logs are equal.  Lines are matched one after the other; the     *)
(* search stops at the first record that no behaviour of the model         *)
(* explains: <<"MATCHED", k>> is printed for every matched line k.  A      *)
(* record that is not matched is DRIFT (spec and code disagree on the      *)
(* mechanism), not a verdict.                                              *)
(***************************************************************************)
EXTENDS TcpConn, Json

Trace == ndJsonDeserialize("trace.ndjson")
VARIABLES l, si
tvars == <<l, si>>

Cs == Trace[l]
NameStatus(m) == [i \in 1..Len(m) |-> <<m[i].m, m[i].s>>]
\* what the model's observers have logged so far is a prefix of the record
PrefixOK(o, cs) == /\ IsPrefix(o.tlog, cs.tlog) /\ IsPrefix(o.clog, cs.clog)
                   /\ IsPrefix(NameStatus(o.mlog), NameStatus(cs.mlog)) /\ o.dials <= cs.dials
SameLogs(o, cs) == /\ o.tlog = cs.tlog /\ o.clog = cs.clog /\ NameStatus(o.mlog) = NameStatus(cs.mlog) /\ o.dials = cs.dials
\* the harness had seen at least this much before performing script step i
SeenOK(o, sn) == Len(o.tlog) >= sn.tl /\ Len(o.clog) >= sn.cl /\ Len(o.mlog) >= sn.ml /\ o.dials >= sn.dl

StartState(cs) == /\ st = [c \in Conns |-> InitConn(cs.hs, cs.tk, -1, -1)] /\ ob = [c \in Conns |-> InitOb]
                  /\ now = 0 /\ lst = "open" /\ srv = "accept" /\ tr = <<>>
TraceInit == l = 1 /\ si = 1 /\ (IF Len(Trace) >= 1 THEN StartState(Trace[1]) ELSE StartState([hs |-> "valid", tk |-> "ok"]))

EnvStep ==
  /\ l <= Len(Trace) /\ si <= Len(Cs.script)
  /\ LET e == Cs.script[si] IN
     /\ SeenOK(ob[1], e)
     /\ CASE e.a = "Connect" -> Connect(1)
          [] e.a = "CSend" -> ClientSend(1, Tok(e.k, e.v))
          [] e.a = "CFin" -> ClientFin(1)
          [] e.a = "TSend" -> TargetSend(1)
          [] e.a = "TFin" -> TargetFin(1)
          [] e.a = "TRst" -> TargetRst(1)
          [] e.a = "TClose" -> TargetClose(1)
          [] e.a = "CRst" -> ClientRst(1)
          [] e.a = "TPause" -> TargetPause(1)
          [] e.a = "TResume" -> TargetResume(1)
          [] e.a = "CPause" -> ClientPause(1)
          [] e.a = "CResume" -> ClientResume(1)
          [] e.a = "Tick" -> Tick
          [] e.a = "CloseListener" -> CloseListener
  /\ si' = si + 1 /\ l' = l

Internal ==
  /\ l <= Len(Trace)
  /\ (MainC(1) \/ AuxC(1) \/ Serve)
  /\ PrefixOK(ob'[1], Cs)
  /\ UNCHANGED tvars

\* the record is explained: next line
NextCase ==
  /\ l <= Len(Trace) /\ si = Len(Cs.script) + 1
  /\ st[1].pc \in {"done", "reset"} \/ (st[1].pc = "idle" /\ Cs.script = <<>>)
  /\ SameLogs(ob[1], Cs)
  /\ PrintT(<<"MATCHED", l>>)
  /\ l' = l + 1 /\ si' = 1
  /\ IF l + 1 <= Len(Trace)
     THEN LET n == Trace[l + 1] IN
          /\ st' = [c \in Conns |-> InitConn(n.hs, n.tk, -1, -1)] /\ ob' = [c \in Conns |-> InitOb]
     ELSE /\ st' = [c \in Conns |-> InitConn("valid", "ok", -1, -1)] /\ ob' = [c \in Conns |-> InitOb]
  /\ now' = 0 /\ lst' = "open" /\ srv' = "accept" /\ tr' = <<>>

TraceNext == EnvStep \/ Internal \/ NextCase
TraceSpec == TraceInit /\ [][TraceNext]_<<vars, tvars>>
Finished == (l = Len(Trace) + 1) => PrintT(<<"ALLMATCHED", Len(Trace)>>)
\* the logical clock of a record never needs more than its script's ticks
===============================================================================
