------------------------------ MODULE ReloadTrace ------------------------------
(***************************************************************************)
(* Code -> spec for cmd/outline-ss-server: the in-package harness loads    *)
(* configurations into a real OutlineServer (with injected bind faults)    *)
(* and after every attempt measures, through real sockets and the metrics  *)
(* interface, which <<proto, address>> listen and which <<proto, address,  *)
(* cipher+secret class>> authenticate under which id.  This module         *)
(* recomputes what Reload.tla promises (property layer: Serving(lastGood), *)
(* ListeningOf(lastGood), one runConfig goroutine) and records the first   *)
(* line that disagrees, per kind.                                          *)
(***************************************************************************)
EXTENDS MC_Reload, Json

Trace == ndJsonDeserialize("trace.ndjson")

Kinds == << "load-result",         \* loadConfig succeeded/failed differently from the specification
            "serving-mismatch",    \* C09/C10: keys that authenticate differ from Serving(last good configuration)
            "listening-mismatch",  \* C10: addresses that listen differ from those of the last good configuration
            "leftover-runner",     \* C10: something of a failed/stopped configuration keeps running
            "harness-problem",     \* the harness could not measure (never a verdict)
            \* C11 (hand-over), judged against every configuration that was live at some time during the client operation
            "refused-on-retained",   \* connection refused on an address present in all of them
            "common-key-rejected",   \* a key present (same id) in all of them did not authenticate
            "wrong-attribution",     \* authenticated under an id none of them configures for that listener and key
            "handled-not-once",      \* an accepted connection was reported opened/closed other than exactly once
            "datagram-lost",         \* a datagram to a retained address was not processed
            "connection-unhandled",  \* an accepted connection on a retained address was never handled
            "relay-interrupted",     \* a connection relaying before the reload did not run to completion
            \* process level (real binary, /metrics endpoint)
            "client-exposed",        \* C20: the exposition contains the client's IP address or port
            "process-panic",         \* C18: the process panicked or died
            \* C14 through the server's wiring (mode "natlife")
            "nat-lifetime" >>        \* an association lived shorter than the configured -udptimeout, or was not reclaimed in bounded time
NK == Len(Kinds)

VARIABLES l, good, vio, nscen, nprobe, cfgAt, ndrift
tvars == <<l, good, vio, nscen, nprobe, cfgAt, ndrift>>

ToSet(s) == {s[i] : i \in 1..Len(s)}
E == Trace[l]
Is(e) == l <= Len(Trace) /\ E.ev = e /\ l' = l + 1
Flag(kinds) == vio' = [k \in 1..NK |-> IF vio[k] = 0 /\ Kinds[k] \in kinds THEN l ELSE vio[k]]

TInit == Init /\ l = 1 /\ good = NoCfg /\ vio = [k \in 1..NK |-> 0] /\ nscen = 0 /\ nprobe = 0 /\ cfgAt = <<>> /\ ndrift = 0

TrScenario == Is("Scenario") /\ good' = NoCfg /\ nscen' = nscen + 1 /\ cfgAt' = <<>> /\ UNCHANGED <<vio, nprobe>>

\* the harness holds the foreign sockets only during the load, and only addresses the server does not hold
TrLoad == /\ Is("Load")
          /\ LET c == E.cfg
                 expOk == IF c.kind = "stop" THEN TRUE
                          ELSE IF ~Loadable(c) THEN FALSE
                          ELSE Run(c, 1, {}, ToSet(E.frn)).ok IN
             /\ Flag(IF E.ok # expOk THEN {"load-result"} ELSE {})
             /\ good' = IF c.kind = "stop" THEN NoCfg ELSE IF expOk THEN c ELSE good
          /\ UNCHANGED <<nscen, nprobe, cfgAt>>

TrProbe == /\ Is("Probe")
           /\ Flag(IF Len(E.problems) > 0 THEN {"harness-problem"} ELSE   \* a round that could not measure is no measurement
                   (IF ToSet(E.serving) # Serving(good) THEN {"serving-mismatch"} ELSE {})
                   \cup (IF ToSet(E.listening) # ListeningOf(good) THEN {"listening-mismatch"} ELSE {})
                   \* the kernel accepted a connection on an address that should listen, but the server never handled it
                   \cup (IF \E x \in ToSet(E.unhandled) : <<x[1], x[2]>> \in ListeningOf(good) THEN {"connection-unhandled"} ELSE {})
                   \* more runConfig goroutines than generations that may run (how a live generation is run is the code's business)
                   \cup (IF E.runners > (IF good = NoCfg THEN 0 ELSE 1) THEN {"leftover-runner"} ELSE {})
                   \* every service of the configuration, in either format, runs with the process's NAT timeout: an association
                   \* opened by one datagram is reported removed no earlier than that and within bounded time after it
                   \cup (IF \E x \in ToSet(E.natlife) : ~NatLifeOK(x[3], E.natms, E.natslack) THEN {"nat-lifetime"} ELSE {})
                   \cup {})
           /\ nprobe' = nprobe + 1
           /\ UNCHANGED <<good, nscen, cfgAt>>

TrOther == /\ l <= Len(Trace) /\ E.ev \in {"Handshake", "Done", "Window", "NoSink"} /\ l' = l + 1
           /\ UNCHANGED <<good, vio, nscen, nprobe, cfgAt>>

(* ---- C11: hand-over ---- *)
TrLoadStart == /\ Is("LoadStart")
               /\ cfgAt' = Append(cfgAt, E.cfg)
               /\ UNCHANGED <<good, vio, nscen, nprobe>>
TrLoadEnd == /\ Is("LoadEnd")
             /\ Flag(IF E.ok THEN {} ELSE {"load-result"})
             /\ UNCHANGED <<good, nscen, nprobe, cfgAt>>
CfgAtIdx(i) == IF i = 0 THEN NoCfg ELSE cfgAt[i]
\* configurations live at some time during an operation that began after e0 loads had ended and finished when s1 had started
LiveDuring(e0, s1) == {CfgAtIdx(i) : i \in e0..s1}
TrClient ==
  /\ Is("Client")
  /\ LET L == LiveDuring(E.e0, E.s1)
         retained == \A c \in L : <<E.proto, E.a>> \in ListeningOf(c)
         idsOf(c) == {x[4] : x \in {y \in Serving(c) : y[1] = E.proto /\ y[2] = E.a /\ y[3] = E.cs}}
         common == IF \A c \in L : idsOf(c) # {} THEN {1} ELSE {}     \* cipher+secret configured on that listener in all of them
         any == UNION {idsOf(c) : c \in L} IN
     Flag((IF E.res = "refused" /\ retained THEN {"refused-on-retained"} ELSE {})
          \cup (IF E.res = "noauth" /\ common # {} THEN {"common-key-rejected"} ELSE {})
          \cup (IF E.res = "auth" /\ E.id \notin any THEN {"wrong-attribution"} ELSE {})
          \cup (IF E.res \in {"auth", "noauth"} /\ (E.opened # 1 \/ E.closed # 1) THEN {"handled-not-once"} ELSE {})
          \cup (IF E.res = "unprocessed" /\ retained THEN {"datagram-lost"} ELSE {})
          \cup (IF E.res = "unhandled" /\ retained THEN {"connection-unhandled"} ELSE {})
          \cup (IF E.res = "error" THEN {"harness-problem"} ELSE {}))
  /\ nprobe' = nprobe + 1
  /\ UNCHANGED <<good, nscen, cfgAt>>
\* process level: nothing exported may contain the client address (C20); the keys/ports gauges follow the loaded
\* configuration (main.go:282: all configured keys, not de-duplicated; one port per listener) - a mismatch is drift
RECURSIVE SumKs(_, _)
SumKs(c, i) == IF i > Len(c.svcs) THEN 0 ELSE Len(c.svcs[i].ks) + SumKs(c, i + 1)
NumKeys(c) == Len(c.legacy) + SumKs(c, 1)
TrExposition == /\ Is("Exposition")
                /\ Flag(IF Len(E.exposed) > 0 THEN {"client-exposed"} ELSE {})
                /\ ndrift' = IF good # NoCfg /\ (E.keys # NumKeys(good) \/ E.ports # Cardinality(ListeningOf(good)))
                              THEN ndrift + 1 ELSE ndrift
                /\ UNCHANGED <<good, nscen, nprobe, cfgAt>>
TrProcessEnd == /\ Is("ProcessEnd")
                /\ Flag(IF E.panicked THEN {"process-panic"} ELSE {})
                /\ UNCHANGED <<good, nscen, nprobe, cfgAt, ndrift>>
TrRelay == /\ Is("Relay")
           /\ Flag(IF E.ok THEN {} ELSE IF E.setup THEN {"harness-problem"} ELSE {"relay-interrupted"})
           /\ nprobe' = nprobe + 1
           /\ UNCHANGED <<good, nscen, cfgAt>>
\* the harness could not bind an address that should be free: the server still holds it (the scenario's ports are
\* private to the scenario and outside the ephemeral range)
TrForeignFailed == /\ Is("ForeignFailed")
                   /\ Flag(IF <<E.l[1], E.l[2]>> \notin ListeningOf(good) THEN {"listening-mismatch"} ELSE {"harness-problem"})
                   /\ UNCHANGED <<good, nscen, nprobe, cfgAt>>
TrProblem == /\ Is("HarnessProblem") /\ Flag({"harness-problem"}) /\ UNCHANGED <<good, nscen, nprobe, cfgAt>>

TNextA == (TrScenario \/ TrLoad \/ TrProbe \/ TrOther \/ TrProblem \/ TrForeignFailed
           \/ TrLoadStart \/ TrLoadEnd \/ TrClient \/ TrRelay) /\ UNCHANGED <<vars, ndrift>>
TNextB == (TrExposition \/ TrProcessEnd) /\ UNCHANGED vars
TNext == TNextA \/ TNextB
TSpec == TInit /\ [][TNext]_<<tvars, vars>>

Report == (l = Len(Trace) + 1) => PrintT(<<"RESULT", l - 1, nscen, nprobe, vio, ndrift>>)
TraceAccepted == TLCGet("stats").diameter - 1 = Len(Trace)
===============================================================================
