------------------------------ MODULE ReloadTrace ------------------------------
(***************************************************************************)
(* Code -> spec for cmd/outline-ss-server: the in-package harness loads    *)
(* configurations into a real OutlineServer (with injected bind faults)    *)
(* and after every attempt measures, through real sockets and the metrics  *)
(* interface, which <<proto, address>> listen and which <<proto, address,  *)
(* cipher+secret class>> authenticate under which id.  This module         *)
(* recomputes what Reload.tla promises (property layer: Serving(lastGood), *)
(* ListeningOf(lastGood), one runConfig goroutine) and records the first   *)
(* line that disagrees, per kind.                                          *)
(***************************************************************************)
EXTENDS MC_Reload, Json

Trace == ndJsonDeserialize("trace.ndjson")

Kinds == << "load-result",         \* loadConfig succeeded/failed differently from the specification
            "serving-mismatch",    \* C09/C10: keys that authenticate differ from Serving(last good configuration)
            "listening-mismatch",  \* C10: addresses that listen differ from those of the last good configuration
            "leftover-runner",     \* C10: something of a failed/stopped configuration keeps running
            "harness-problem" >>   \* the harness could not measure (never a verdict)
NK == Len(Kinds)

VARIABLES l, good, vio, nscen, nprobe
tvars == <<l, good, vio, nscen, nprobe>>

ToSet(s) == {s[i] : i \in 1..Len(s)}
E == Trace[l]
Is(e) == l <= Len(Trace) /\ E.ev = e /\ l' = l + 1
Flag(kinds) == vio' = [k \in 1..NK |-> IF vio[k] = 0 /\ Kinds[k] \in kinds THEN l ELSE vio[k]]

TInit == Init /\ l = 1 /\ good = NoCfg /\ vio = [k \in 1..NK |-> 0] /\ nscen = 0 /\ nprobe = 0

TrScenario == Is("Scenario") /\ good' = NoCfg /\ nscen' = nscen + 1 /\ UNCHANGED <<vio, nprobe>>

\* the harness holds the foreign sockets only during the load, and only addresses the server does not hold
TrLoad == /\ Is("Load")
          /\ LET c == E.cfg
                 expOk == IF c.kind = "stop" THEN TRUE
                          ELSE IF c.kind # "ok" THEN FALSE
                          ELSE Run(c, 1, {}, ToSet(E.frn)).ok IN
             /\ Flag(IF E.ok # expOk THEN {"load-result"} ELSE {})
             /\ good' = IF c.kind = "stop" THEN NoCfg ELSE IF expOk THEN c ELSE good
          /\ UNCHANGED <<nscen, nprobe>>

TrProbe == /\ Is("Probe")
           /\ Flag((IF ToSet(E.serving) # Serving(good) THEN {"serving-mismatch"} ELSE {})
                   \cup (IF ToSet(E.listening) # ListeningOf(good) THEN {"listening-mismatch"} ELSE {})
                   \cup (IF E.runners # (IF good = NoCfg THEN 0 ELSE 1) THEN {"leftover-runner"} ELSE {})
                   \cup (IF Len(E.problems) > 0 THEN {"harness-problem"} ELSE {}))
           /\ nprobe' = nprobe + 1
           /\ UNCHANGED <<good, nscen>>

TrOther == /\ l <= Len(Trace) /\ E.ev \in {"Handshake", "Done", "Window", "Client"} /\ l' = l + 1
           /\ UNCHANGED <<good, vio, nscen, nprobe>>
\* the harness could not bind an address that should be free: the server still holds it (the scenario's ports are
\* private to the scenario and outside the ephemeral range)
TrForeignFailed == /\ Is("ForeignFailed")
                   /\ Flag(IF <<E.l[1], E.l[2]>> \notin ListeningOf(good) THEN {"listening-mismatch"} ELSE {"harness-problem"})
                   /\ UNCHANGED <<good, nscen, nprobe>>
TrProblem == /\ Is("HarnessProblem") /\ Flag({"harness-problem"}) /\ UNCHANGED <<good, nscen, nprobe>>

TNext == (TrScenario \/ TrLoad \/ TrProbe \/ TrOther \/ TrProblem \/ TrForeignFailed) /\ UNCHANGED vars
TSpec == TInit /\ [][TNext]_<<tvars, vars>>

Report == (l = Len(Trace) + 1) => PrintT(<<"RESULT", l - 1, nscen, nprobe, vio>>)
TraceAccepted == TLCGet("stats").diameter - 1 = Len(Trace)
===============================================================================
