---------------------------- MODULE CipherListMC ----------------------------
(* Structured constants of the exhaustive / generation models of CipherList (records cannot be written in a .cfg). *)
EXTENDS CipherList

\* name 99 = the key configured WITHOUT an id (its ID is the empty string): just another key
K(n, c, s) == [name |-> n, cls |-> c, sec |-> s]
V(c, s)    == [kind |-> "valid", cls |-> c, sec |-> s]
B(k, c, s) == [kind |-> k, cls |-> c, sec |-> s]

(* Q: mixed classes; secret 1 under two classes; the key (chacha, secret 1) under two ids (names 1 and 4);
   name 1 re-keyed by the second list; a one-entry list *)
ShapesQ  == { << K(1, 1, 1), K(2, 2, 1), K(99, 3, 2), K(4, 1, 1) >>,
              << K(1, 4, 2), K(5, 3, 2) >>,
              << K(2, 2, 1) >> }
OpenersQ == { V(1, 1), V(3, 2), V(4, 2), B("bad", 1, 1) }
\* + a well-formed stream under a key that is in no list, fewer than 50 bytes
OpenersT == OpenersQ \cup { V(2, 2), B("short", 3, 2) }

(* X: all four classes under one secret, an AES-128 key under two ids, the empty list *)
ShapesX  == { << K(6, 4, 3), K(7, 3, 3), K(8, 2, 3), K(9, 4, 3) >>, << >>, << K(1, 4, 2), K(5, 3, 2) >> }
OpenersX == { V(4, 3), V(3, 3), V(1, 3), V(4, 2), B("bad", 4, 3), B("stall", 4, 3) }

(* behaviour generation: every class of opener the driver can build *)
BadKinds == {"wrongkey", "random", "flipsalt", "fliplen", "fliptag", "short", "stall"}
ShapesG  == ShapesQ \cup ShapesX
OpenersG == { V(1, 1), V(2, 1), V(3, 2), V(4, 2), V(4, 3), V(3, 3), V(2, 3), V(1, 3), V(1, 2), V(2, 2),
              B("wrongkey", 1, 1), B("random", 2, 1), B("flipsalt", 3, 2), B("fliplen", 4, 3), B("fliptag", 1, 1),
              B("fliptag", 4, 2), B("flipsalt", 2, 3), B("fliplen", 3, 3), B("short", 3, 2), B("short", 4, 3),
              B("stall", 1, 1) }
\* MRU / last-client-IP histories: only keys that are in the lists, many lookups
ShapesH  == { << K(1, 1, 1), K(2, 2, 1), K(99, 3, 2), K(4, 1, 1) >>, << K(6, 4, 3), K(7, 3, 3), K(8, 2, 3), K(9, 4, 3) >>,
              << K(1, 4, 3), K(5, 3, 2), K(2, 2, 1) >> }
OpenersH == { V(1, 1), V(2, 1), V(3, 2), V(4, 3), V(3, 3), V(2, 3) }
===============================================================================
