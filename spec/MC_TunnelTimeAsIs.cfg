\* exhaustive, code AS IT IS (Collect reads now() before Lock), scrapes interleaved with everything:
\* finds the shortest schedule with a negative counter increment and prints it (model finding -> replayed on the code)
SPECIFICATION GenSpec
CONSTANTS
  NI = 2
  NK = 2
  NL = 2
  MaxConn = 2
  MaxClock = 2
  TickSet = {1, 2}
  NS = 2
  MaxOps = 0
  ClockUnderLock = FALSE
  Interleave = TRUE
  WithTraffic = FALSE
  WithUnknownStop = FALSE
  Forms = {1}
  LocMaps <- CanonLocMaps
INVARIANTS TypeOK CrashDump
VIEW GenView
CHECK_DEADLOCK FALSE
