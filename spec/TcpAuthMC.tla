------------------------------ MODULE TcpAuthMC ------------------------------
(* Structured constants of the exhaustive / generation models of TcpAuth. *)
EXTENDS TcpAuth
\* name 99 = the key configured WITHOUT an id (its ID is the empty string): just another key
K(n, c, s) == [name |-> n, cls |-> c, sec |-> s]
\* chacha20 and aes-256 under ONE secret (32-byte salts, one marking key), aes-192 (24) and aes-128 (16, unmarked) under
\* another, and the chacha key once more under a second id
KeysQ == << K(1, 1, 1), K(2, 2, 1), K(99, 3, 2), K(4, 4, 2), K(5, 1, 1) >>
\* all four classes under one secret
KeysX == << K(1, 4, 1), K(99, 3, 1), K(3, 2, 1), K(4, 1, 1) >>
\* a small list for the 4-connection model: one marking class of each salt size and the unmarked class
KeysS == << K(1, 1, 1), K(2, 3, 1), K(3, 4, 1) >>
===============================================================================
